#!/bin/sh
# Build the framework's two helper programs from files on disk only (offline).
set -e
cd "$(dirname "$0")"
export CARGO_NET_OFFLINE=true
(cd tools/mirdump && cargo build --release --offline)
if [ -d tools/oracle/src ] && [ -f tools/oracle/Cargo.toml ]; then
  (cd tools/oracle && cargo build --release --offline)
fi
mkdir -p .work evidence
echo "setup ok"
