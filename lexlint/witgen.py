"""Witness families (DESIGN.md section 1.5). Every witness is generated from a Python syntax tree;
the same tree feeds the reference semantics."""
import itertools
import random

from .rx import Def, Rule, BUILTINS, nullable, is_class, show
from .wit import Witness


def C(c):
    return ("chr", c)


def S(s):
    return ("str", s)


def SET(*items):
    return ("set", tuple(items))


ANY = ("any",)
EOI = ("eoi",)


def cat(*rs):
    r = rs[0]
    for x in rs[1:]:
        r = ("cat", r, x)
    return r


def alt(*rs):
    r = rs[0]
    for x in rs[1:]:
        r = ("alt", r, x)
    return r


def star(r):
    return ("star", r)


def plus(r):
    return ("plus", r)


def opt(r):
    return ("opt", r)


def diff(a, b):
    return ("diff", a, b)


def V(n):
    return ("var", n)


def B(n):
    return ("builtin", n)


def rules(*res, **kw):
    return [Rule(r, **kw) if not isinstance(r, Rule) else r for r in res]


def single(name, family, re, lets=(), **kw):
    top = [("let", n, r) for n, r in lets] + [Rule(re)]
    return Witness(name, family, Def(top=top), **kw)


# ------------------------------------------------------------------------------------------ ops
ATOMS = [("a", C("a")), ("b", C("b")), ("ac", SET(("a", "c"))), ("bd", SET(("b", "d"))),
         ("any", ANY), ("sab", S("ab")), ("v", V("v"))]
V_DEF = cat(C("a"), C("b"))
UN = [("star", star), ("plus", plus), ("opt", opt)]
BIN = [("cat", lambda a, b: ("cat", a, b)), ("alt", lambda a, b: ("alt", a, b))]


def trees(size):
    """All (name, tree) of exactly `size` nodes over ATOMS / UN / BIN."""
    if size == 1:
        return list(ATOMS)
    out = []
    for un, f in UN:
        for n, t in trees(size - 1):
            out.append(("%s_%s" % (un, n), f(t)))
    for bn, f in BIN:
        for ls in range(1, size - 1):
            rs = size - 1 - ls
            for (n1, t1) in trees(ls):
                for (n2, t2) in trees(rs):
                    out.append(("%s_%s_%s" % (bn, n1, n2), f(t1, t2)))
    return out


def uses_var(t):
    return t[0] == "var" or any(isinstance(x, tuple) and x and isinstance(x[0], str) and uses_var(x)
                                for x in t[1:] if isinstance(x, tuple))


ATOMS_U = [("e2", C(chr(0xE9))), ("arrow3", C(chr(0x2192))), ("emoji4", C(chr(0x1F600))),
           ("s_arrow", S(chr(0x2192))), ("s_lt_le", S("<" + chr(0x2264))), ("s_le_x", S(chr(0x2264) + "x")),
           ("s_emoji2", S(chr(0x1F600) + chr(0x1F601))), ("greek", SET((chr(0x3B1), chr(0x3C9)))),
           ("arrows", SET((chr(0x2190), chr(0x21FF)))), ("mixset", SET("_", ("a", "c"), "x")),
           ("astral", SET((chr(0x1F600), chr(0x1F64F))))]


def fam_ops(tier, seed):
    out = []
    env = {"v": V_DEF}
    rnd = random.Random((seed if tier == "thorough" else 0) + 3)
    for sz in (1, 2, 3, 4):
        ts = trees(sz)
        if sz == 4:
            # ~7 000 trees: a seeded sample (the thorough tier takes ten times more)
            ts = rnd.sample(ts, min(len(ts), 150 if tier == "quick" else 1500))
        for n, t in ts:
            re = t if not nullable(t, env) else ("cat", t, C("z"))
            lets = [("v", V_DEF)] if uses_var(t) else []
            out.append(single("ops_%d_%s" % (sz, n), "ops", re, lets))
    # character VALUES: the same operators over multi-byte characters, strings ending in a
    # multi-byte character, non-ASCII ranges, and a set mixing single characters with a range
    for n, a in ATOMS_U:
        out.append(single("ops_u1_%s" % n, "ops", a))
        for un, f in UN:
            t = f(a)
            out.append(single("ops_u2_%s_%s" % (un, n), "ops", ("cat", t, C("z")) if nullable(t) else t))
        for n2, b in ATOMS[:5] + ATOMS_U[:4]:
            if n2 == n:
                continue
            out.append(single("ops_u3_cat_%s_%s" % (n, n2), "ops", ("cat", a, b)))
            out.append(single("ops_u3_cat_%s_%s" % (n2, n) + "_r", "ops", ("cat", b, a)))
            out.append(single("ops_u3_alt_%s_%s" % (n, n2), "ops", ("alt", a, b)))
    # alternations that repeat a literal, also through variables
    a_, b_, c_ = C("a"), C("b"), C("c")
    out.append(single("ops_alt_rep_chars", "ops", alt(a_, b_, a_)))
    out.append(single("ops_alt_rep_str1", "ops", alt(S("c"), S("c"))))
    out.append(single("ops_alt_rep_strs", "ops", alt(S("ab"), S("ab"), S("a"))))
    out.append(single("ops_alt_rep_var", "ops", alt(V("s"), C("*"), C("-")), [("s", alt(C("+"), C("-")))]))
    out.append(single("ops_alt_rep_nested", "ops", cat(alt(alt(a_, b_), alt(b_, c_)), C("!"))))
    out.append(single("ops_alt_rep_set", "ops", alt(SET("a", "b"), a_, SET(("a", "c")))))
    # nested repetition (named in C02's quantifier): every postfix operator around a concatenation /
    # alternation whose head or tail is itself under a postfix operator
    a, b, c = C("a"), C("b"), C("c")
    for n1, u1 in UN:
        for n2, u2 in UN:
            shapes = [("hd", ("cat", u2(a), b)), ("tl", ("cat", a, u2(b))), ("alt", ("alt", u2(a), b)),
                      ("both", ("cat", u2(a), u2(b))), ("str", ("cat", u2(S("ab")), c)),
                      ("rng", ("cat", u2(SET(("a", "c"))), b))]
            for sn, body in shapes:
                t = ("cat", ("cat", C("<"), u1(body)), C(">"))
                out.append(single("ops_nest_%s_%s_%s" % (n1, n2, sn), "ops", t))
            out.append(single("ops_nest3_%s_%s" % (n1, n2), "ops",
                              ("cat", ("cat", C("<"), u1(("cat", u2(("cat", star(a), b)), c))), C(">"))))
    # equal-language pairs are separate witnesses, each compared with the same reference
    pairs = [
        ("plus_vs_cat_star", plus(C("a")), cat(C("a"), star(C("a")))),
        ("alt_comm", alt(C("a"), S("bc")), alt(S("bc"), C("a"))),
        ("str_vs_chars", S("abc"), cat(C("a"), C("b"), C("c"))),
        ("opt_vs_alt", cat(opt(C("a")), C("b")), alt(cat(C("a"), C("b")), C("b"))),
    ]
    for n, r1, r2 in pairs:
        out.append(single("ops_eq_%s_l" % n, "ops", r1))
        out.append(single("ops_eq_%s_r" % n, "ops", r2))
    out.append(single("ops_eq_var_use", "ops", cat(V("x"), C("c"), V("x")), [("x", alt(C("a"), S("bb")))]))
    out.append(single("ops_eq_var_inl", "ops", cat(alt(C("a"), S("bb")), C("c"), alt(C("a"), S("bb")))))
    return out


# ---------------------------------------------------------------------------------------- munch
def fam_munch(tier, seed):
    out = []
    hand = [
        # quoted in C01/C12: a longer attempt dies after a shorter match was possible
        ("f1_flags", [cat(SET(("b", "c")), S("bab"), alt(SET(("c", "e")), S("ab"))), C("b"), C("a"),
                      cat(S("cbaa"), SET(("b", "c")))]),
        ("f1_loop", [C("c"), cat(SET(("a", "d")), S("cc")), cat(plus(SET(("a", "d"))), S("ba")), C("c"),
                     C("b")]),
        ("kw_ident", [S("if"), S("ifx"), plus(SET(("a", "z")))]),
        ("prio_same_len", [plus(SET(("a", "z"))), S("if")]),
        ("prefix_chain", [C("a"), S("ab"), S("abc"), S("abcd")]),
        ("dead_long", [S("abcde"), C("a"), C("b"), C("c"), C("d")]),
        ("loop_then_lit", [cat(star(C("a")), C("b")), C("a")]),
        ("two_loops", [cat(plus(C("a")), plus(C("b")), C("c")), plus(C("a")), plus(C("b"))]),
        ("join_with_without", [cat(alt(C("x"), S("ab")), S("cd")), S("ab"), C("x"), C("c")]),
        ("any_fallback", [S("ab"), ANY]),
        ("any_star_q", [cat(C("q"), star(ANY), C("q")), C("q"), SET(("a", "c"))]),
        ("range_overlap", [cat(SET(("a", "f")), C("1")), cat(SET(("d", "k")), C("2")), SET(("a", "z"))]),
        ("comment", [cat(S("/*"), star(alt(diff(ANY, C("*")), cat(C("*"), diff(ANY, C("/"))))), S("*/")),
                     C("/"), C("*")]),
        ("number", [plus(SET(("0", "9"))), cat(plus(SET(("0", "9"))), C("."), plus(SET(("0", "9")))), C(".")]),
        ("nested_rep", [cat(plus(cat(C("a"), opt(C("b")))), C("c")), C("a"), S("ab")]),
        ("alt_prefix", [alt(S("abc"), S("abd")), S("ab"), C("a")]),
        ("opt_tail", [cat(S("ab"), opt(S("cd"))), cat(S("abc"), C("x"))]),
        ("star_alt", [cat(star(alt(S("ab"), C("a"))), C("c")), C("a"), C("b")]),
    ]
    # every kind of successor (char, range, `_`, end of input) behind a FIRST accepting state, one
    # and two steps deep, with the failure happening exactly there
    kinds = [("chr", C("x")), ("rng", SET(("x", "z"))), ("any", ANY), ("set", SET("x", ("m", "o")))]
    for kn, K in kinds:
        hand.append(("succ1_%s" % kn, [C("a"), C("b"), cat(C("a"), K, C("c"))]))
        hand.append(("succ2_%s" % kn, [C("a"), C("b"), cat(C("a"), K, K, C("c"))]))
        hand.append(("succ_loop_%s" % kn, [S("ab"), C("b"), cat(S("ab"), plus(K), C("!"))]))
        for kn2, K2 in kinds:
            if kn2 != kn:
                hand.append(("succ_%s_%s" % (kn, kn2), [C("a"), C("b"), cat(C("a"), K, K2, C("c"))]))
    hand.append(("succ_eoi", [C("a"), C("b"), cat(C("a"), C("x"), EOI)]))
    hand.append(("succ_any_eoi", [C("a"), C("b"), cat(C("a"), ANY, EOI), cat(C("a"), ANY, C("c"))]))
    for n, rs in hand:
        out.append(Witness("munch_" + n, "munch", Def(top=rules(*rs))))
    n_rand = 200 if tier == "quick" else 1500
    rnd = random.Random(1000 + (seed if tier == "thorough" else 0))
    for i in range(n_rand):
        out.append(Witness("munch_r%d_%d" % (seed if tier == "thorough" else 0, i), "munch",
                           Def(top=rules(*rand_rules(rnd)))))
    return out


def rand_re(rnd, depth, alphabet="abc"):
    if depth <= 0 or rnd.random() < 0.3:
        k = rnd.random()
        if k < 0.55:
            return C(rnd.choice(alphabet))
        if k < 0.7:
            lo = rnd.choice(alphabet)
            hi = rnd.choice(alphabet)
            if lo > hi:
                lo, hi = hi, lo
            return SET((lo, hi))
        if k < 0.85:
            return S("".join(rnd.choice(alphabet) for _ in range(rnd.randint(2, 3))))
        if k < 0.93:
            return ANY
        return SET(rnd.choice(alphabet), rnd.choice(alphabet))
    k = rnd.random()
    if k < 0.4:
        return ("cat", rand_re(rnd, depth - 1, alphabet), rand_re(rnd, depth - 1, alphabet))
    if k < 0.6:
        return ("alt", rand_re(rnd, depth - 1, alphabet), rand_re(rnd, depth - 1, alphabet))
    if k < 0.75:
        return ("star", rand_re(rnd, depth - 1, alphabet))
    if k < 0.9:
        return ("plus", rand_re(rnd, depth - 1, alphabet))
    return ("opt", rand_re(rnd, depth - 1, alphabet))


def rand_rules(rnd, n=None, alphabet="abc"):
    n = n or rnd.randint(2, 5)
    out = []
    while len(out) < n:
        r = rand_re(rnd, rnd.randint(1, 3), alphabet)
        if nullable(r):
            r = ("cat", r, C(rnd.choice(alphabet)))
        out.append(r)
    return out


# ------------------------------------------------------------------------------------- rulesets
def fam_rulesets(tier, seed):
    out = []
    base = {
        "A": [S("ab"), plus(C("a"))],
        "B": [cat(C("b"), star(C("c"))), C("x")],
        "C": [alt(S("cd"), S("ce")), C("c"), ANY],
        "D": [cat(SET(("0", "9")), opt(C("."))), C(".")],
        "T": [S("xy")],            # automaton with a state that has no transitions (dropped)
        "E": [],                   # empty rule set
        "I": [cat(C("p"), C("q"), C("r")), C("p")],     # chain of single-predecessor (inlined) states
        # a state with a char and a range transition to the same single-predecessor successor
        "M": [cat(SET("_", ("a", "z")), SET(("0", "9")))],
        "N": [cat(SET(("0", "9"), "!"), opt(C("#")))],
    }

    def mk(name, order):
        sets = [("Init", rules(C("i"), S("in")))]
        for k in order:
            sets.append((k, rules(*base[k])))
        return Witness("rulesets_" + name, "rulesets", Def(sets=sets))

    orders = [("A",), ("B", "A"), ("A", "B"), ("T", "A"), ("A", "T"), ("E", "A"), ("A", "E"),
              ("I", "A"), ("A", "I"), ("A", "B", "C"), ("C", "B", "A"), ("T", "I", "A"),
              ("A", "T", "I"), ("I", "T", "E", "A"), ("E", "E2") if False else ("E", "B"),
              ("D", "C", "T"), ("T", "T2") if False else ("T", "D"), ("A", "B", "C", "D"),
              ("D", "C", "B", "A"), ("M", "N"), ("N", "M"), ("M", "A", "N"), ("A", "M", "T", "N"),
              ("M", "E", "N", "I")]
    for o in orders:
        out.append(mk("_".join(o), o))
    # Init itself with dropped / inlined states before later entry states
    out.append(Witness("rulesets_init_terminal", "rulesets",
                       Def(sets=[("Init", rules(S("xy"), C("z"))), ("A", rules(*base["A"])),
                                 ("B", rules(*base["B"]))])))
    out.append(Witness("rulesets_init_only", "rulesets", Def(sets=[("Init", rules(S("ab"), C("a")))])))
    out.append(Witness("rulesets_init_empty", "rulesets",
                       Def(sets=[("Init", []), ("A", rules(*base["A"]))])))
    if True:
        keys = sorted(base)
        rnd = random.Random((seed if tier == "thorough" else 0) + 7)
        seen = set(orders)
        for i in range(170 if tier == "thorough" else 25):
            o = tuple(rnd.sample(keys, rnd.randint(1, 4)))
            if o in seen:
                continue
            seen.add(o)
            out.append(mk("t_" + "_".join(o), o))
        for i in range(30 if tier == "thorough" else 25):
            sets = [("Init", rules(*rand_rules(rnd, rnd.randint(1, 3))))]
            for j in range(rnd.randint(1, 3)):
                sets.append(("R%d" % j, rules(*rand_rules(rnd, rnd.randint(0, 3)))))
            out.append(Witness("rulesets_rand_%d_%d" % (seed if tier == "thorough" else 0, i), "rulesets",
                               Def(sets=sets)))
    return out


# ----------------------------------------------------------------------------------------- rctx
def fam_rctx(tier, seed):
    out = []
    ctxs = [
        ("lit2", S("bc")), ("lit3", S("bcd")), ("chr", C("b")), ("set", SET(("0", "9"), "x")),
        ("rep", cat(star(C("b")), C("c"))), ("plus", plus(C("b"))), ("eoi", EOI),
        ("alt_eoi", alt(C("b"), EOI)), ("alt_lits", alt(S("bc"), S("bd"))),
        ("any_diff", diff(ANY, C("x"))), ("nullable", opt(C("b"))), ("nullable_star", star(C("b"))),
        ("any", ANY), ("lit_then_eoi", cat(C("b"), EOI)), ("range_then_lit", cat(SET(("a", "c")), S("zz"))),
        ("big_class", diff(ANY, alt(C("."), C("_"), B("XID_Start")))),
        ("big_class_or_eoi", alt(diff(ANY, alt(C("."), C("_"), B("XID_Start"))), EOI)),
        ("builtin", B("alphabetic")), ("builtin_seq", cat(B("ascii_digit"), B("alphabetic"))),
    ]
    for n, c in ctxs:
        # context on the first rule, a context-free rule of lower priority for the same lexeme
        out.append(Witness("rctx_first_" + n, "rctx",
                           Def(top=[Rule(C("a"), ctx=c), Rule(C("a")), Rule(C("b")), Rule(C("c"))])))
    overlap_ctxs = [
        ("char_acc_range_more", alt(C("x"), cat(SET(("a", "z")), C("!")))),
        ("char_more_range_acc", alt(cat(C("x"), C("?")), SET(("a", "z")))),
        ("char_acc_any_more", alt(C("x"), cat(ANY, C("!")))),
        ("char_more_any_acc", alt(cat(C("x"), C("?")), ANY)),
        ("two_ranges_overlap", alt(cat(SET(("a", "m")), C("1")), SET(("h", "z")))),
        ("char_acc_builtin_more", alt(C("_"), cat(B("XID_Continue"), C(":")))),
        ("char_more_builtin_acc", alt(cat(C("q"), C(":")), B("alphabetic"))),
        ("star_then_overlap", cat(star(C("y")), alt(C("x"), cat(SET(("a", "z")), C("!"))))),
    ]
    for n, c in overlap_ctxs:
        out.append(Witness("rctx_overlap_" + n, "rctx",
                           Def(top=[Rule(C("k"), ctx=c), Rule(C("k")), Rule(ANY)])))
    small = trees(1) + trees(2) + trees(3)[::9]
    for n, t in small:
        lets = [("let", "v", V_DEF)] if uses_var(t) else []
        out.append(Witness("rctx_tree_" + n, "rctx",
                           Def(top=lets + [Rule(C("k"), ctx=t), Rule(C("k")), Rule(C("a")), Rule(C("b"))])))
    pos = [("lit2", S("bc")), ("eoi", EOI), ("rep", cat(star(C("b")), C("c"))), ("nullable", opt(C("b")))]
    for n, c in pos:
        out.append(Witness("rctx_last_" + n, "rctx",
                           Def(top=[Rule(S("ab")), Rule(C("a"), ctx=c), Rule(C("b")), Rule(C("c"))])))
        out.append(Witness("rctx_mid_longer_" + n, "rctx",
                           Def(top=[Rule(C("a")), Rule(plus(C("a")), ctx=c), Rule(C("b")), Rule(C("c"))])))
        out.append(Witness("rctx_only_" + n, "rctx",
                           Def(top=[Rule(plus(C("a")), ctx=c), Rule(C("b")), Rule(C("c"))])))
    # several contexts competing for the same lexeme, in priority order
    out.append(Witness("rctx_two", "rctx", Def(top=[
        Rule(C("a"), ctx=C("b")), Rule(C("a"), ctx=C("c")), Rule(C("a")), Rule(C("b")), Rule(C("c"))])))
    out.append(Witness("rctx_three_nofree", "rctx", Def(top=[
        Rule(S("ab"), ctx=C("x")), Rule(S("ab"), ctx=S("yy")), Rule(S("ab"), ctx=EOI), Rule(C("a")),
        Rule(C("x")), Rule(C("y"))])))
    # the same, in a state that has further transitions (save chain instead of immediate accept)
    out.append(Witness("rctx_two_live", "rctx", Def(top=[
        Rule(C("a"), ctx=C("b")), Rule(C("a"), ctx=SET("b", "c")), Rule(C("a")), Rule(S("ab")),
        Rule(C("b")), Rule(C("c"))])))
    out.append(Witness("rctx_three_live_nofree", "rctx", Def(top=[
        Rule(S("ab"), ctx=C("x")), Rule(S("ab"), ctx=SET(("w", "y"))), Rule(S("ab"), ctx=alt(C("x"), EOI)),
        Rule(S("abx")), Rule(C("a")), Rule(C("x")), Rule(C("w")), Rule(C("y"))])))
    out.append(Witness("rctx_two_live_loop", "rctx", Def(top=[
        Rule(plus(C("a")), ctx=S("ab")), Rule(plus(C("a")), ctx=C("a")), Rule(C("a")), Rule(C("b"))])))
    out.append(Witness("rctx_shorter_survives", "rctx", Def(top=[
        Rule(C("a")), Rule(S("aa"), ctx=C("!")), Rule(S("aaa"), ctx=C("?")), Rule(C("!")), Rule(C("?"))])))
    out.append(Witness("rctx_in_rulesets", "rctx", Def(sets=[
        ("Init", [Rule(C("a"), ctx=S("bc")), Rule(C("a")), Rule(C("b"))]),
        ("R", [Rule(plus(C("x")), ctx=alt(C("y"), EOI)), Rule(C("x")), Rule(C("y"))])])))
    out.append(Witness("rctx_local_vars_same_text", "rctx", Def(sets=[
        ("Init", [("let", "end", C(";")), Rule(C("a"), ctx=V("end")), Rule(C("a")), Rule(C(";")), Rule(C("."))]),
        ("Dotted", [("let", "end", C(".")), Rule(C("a"), ctx=V("end")), Rule(C("a")), Rule(C(";")), Rule(C("."))])])))
    out.append(Witness("rctx_local_vars_three_sets", "rctx", Def(sets=[
        ("Init", [("let", "e", S("xy")), Rule(plus(C("a")), ctx=V("e")), Rule(C("x")), Rule(C("y"))]),
        ("R", [("let", "e", alt(C("y"), EOI)), Rule(plus(C("a")), ctx=V("e")), Rule(C("x")), Rule(C("y"))]),
        ("Q", [("let", "e", SET(("x", "z"))), Rule(plus(C("a")), ctx=cat(V("e"), V("e"))), Rule(C("x"))])])))
    out.append(Witness("rctx_same_ctx_twice", "rctx", Def(top=[
        Rule(C("a"), ctx=S("bc")), Rule(S("ab"), ctx=S("bc")), Rule(C("b")), Rule(C("c")), Rule(C("a"))])))
    out.append(Witness("rctx_same_ctx_two_sets", "rctx", Def(sets=[
        ("Init", [Rule(C("a"), ctx=S("bc")), Rule(C("b")), Rule(C("c"))]),
        ("R", [Rule(C("x"), ctx=S("bc")), Rule(C("b")), Rule(C("c"))])])))
    out.append(Witness("rctx_top_and_local_vars", "rctx", Def(
        top=[("let", "d", SET(("0", "9")))],
        sets=[("Init", [("let", "t", cat(V("d"), C("!"))), Rule(plus(V("d")), ctx=V("t")), Rule(V("d")), Rule(C("!"))]),
              ("R", [("let", "t", cat(V("d"), C("?"))), Rule(plus(V("d")), ctx=V("t")), Rule(V("d")), Rule(C("?"))])])))
    out.append(Witness("rctx_with_vars", "rctx", Def(top=[
        ("let", "d", SET(("0", "9"))), Rule(cat(plus(V("d")), C(".")), ctx=alt(diff(ANY, C(".")), EOI)),
        Rule(plus(V("d"))), Rule(S(".."))])))
    if True:
        rnd = random.Random((seed if tier == "thorough" else 0) + 11)
        for i in range(260 if tier == "thorough" else 100):
            rs = []
            n = rnd.randint(2, 4)
            for j in range(n):
                r = rand_re(rnd, 2)
                if nullable(r):
                    r = ("cat", r, C("a"))
                c = None
                if rnd.random() < 0.5:
                    c = rand_re(rnd, 2)
                    if rnd.random() < 0.2:
                        c = alt(c, EOI)
                rs.append(Rule(r, ctx=c))
            out.append(Witness("rctx_rand_%d_%d" % (seed if tier == "thorough" else 0, i), "rctx", Def(top=rs)))
    return out


# ------------------------------------------------------------------------------------------ eoi
def fam_eoi(tier, seed):
    out = []
    defs = [
        ("init_eoi", [Rule(EOI), Rule(C("a"))]),
        ("re_eoi_pref", [Rule(cat(S("ab"), EOI)), Rule(S("ab")), Rule(C("a"))]),
        ("re_then_re_eoi", [Rule(S("ab")), Rule(cat(S("ab"), EOI)), Rule(C("a"))]),
        ("only_with_eoi", [Rule(cat(plus(C("a")), EOI)), Rule(C("b"))]),
        ("eoi_after_loop", [Rule(cat(star(C("a")), C("b"), EOI)), Rule(C("a")), Rule(C("b"))]),
        ("eoi_alt", [Rule(alt(cat(C("a"), EOI), S("ab"))), Rule(C("a")), Rule(C("b"))]),
        ("no_eoi", [Rule(S("ab")), Rule(C("a"))]),
        ("opt_then_eoi", [Rule(cat(C("a"), opt(C("b")), EOI)), Rule(C("a")), Rule(C("b"))]),
        # rules that match the empty string: Init still ends the stream with `None` when the input runs
        # out at a lexeme boundary (C09 excludes these lexers, C05 does not)
        ("nullable_init", [Rule(cat(opt(C("-")), star(SET(("0", "9")))))]),
        ("nullable_init_star", [Rule(star(SET(("a", "z")))), Rule(C("1"))]),
        ("nullable_init_second", [Rule(C("1")), Rule(star(C("a")))]),
        ("nullable_init_with_eoi", [Rule(star(C("a"))), Rule(EOI)]),
        ("nullable_init_opt", [Rule(opt(S("ab"))), Rule(C("a"))]),
    ]
    for n, rs in defs:
        out.append(Witness("eoi_" + n, "eoi", Def(top=rs)))
    sets = [
        ("rs_eoi_other", [("Init", rules(C("a"))), ("R", [Rule(EOI), Rule(C("b"))])]),
        ("rs_no_eoi_other", [("Init", rules(C("a"))), ("R", [Rule(S("bc")), Rule(C("b"))])]),
        ("rs_re_eoi_other", [("Init", [Rule(C("a")), Rule(EOI)]),
                             ("R", [Rule(cat(plus(C("b")), EOI)), Rule(C("b"))])]),
        ("rs_both", [("Init", [Rule(EOI), Rule(C("a"))]), ("R", [Rule(EOI), Rule(C("b"))]),
                     ("Q", [Rule(C("c"))])]),
        ("rs_nullable_other", [("Init", rules(C("a"))), ("R", [Rule(star(C("b"))), Rule(C("c"))])]),
        ("rs_nullable_init", [("Init", [Rule(star(C("a"))), Rule(C("b"))]), ("R", [Rule(C("c"))])]),
    ]
    for n, s in sets:
        out.append(Witness("eoi_" + n, "eoi", Def(sets=s)))
    if True:
        rnd = random.Random((seed if tier == "thorough" else 0) + 13)
        for i in range(48 if tier == "thorough" else 30):
            rs = []
            for j in range(rnd.randint(2, 4)):
                r = rand_re(rnd, 2)
                if nullable(r):
                    r = ("cat", r, C("a"))
                if rnd.random() < 0.4:
                    r = ("cat", r, EOI)
                rs.append(Rule(r))
            if rnd.random() < 0.3:
                rs.append(Rule(EOI))
            out.append(Witness("eoi_rand_%d_%d" % (seed if tier == "thorough" else 0, i), "eoi", Def(top=rs)))
    return out


# -------------------------------------------------------------------------------------- classes
def fam_classes(tier, seed):
    out = []
    exprs = [
        # the two expressions quoted in C11
        ("c11_a", diff(SET(("0", "5"), ("7", "9")), SET(("0", "8")))),
        ("c11_b", diff(SET(("a", "c"), ("e", "g"), ("i", "k")), SET(("b", "j")))),
        ("overlap_ranges", SET(("a", "f"), ("d", "k"), ("j", "m"))),
        ("overlap_dup", SET(("a", "c"), ("a", "c"), "b")),
        ("repeat_char", SET("a", "a", "b")),
        ("touching", SET(("a", "c"), ("d", "f"))),
        # an item inside a wider one (in both orders), and an item that covers earlier items and the
        # gaps between them
        ("nested_range", SET(("a", "z"), ("c", "e"))),
        ("nested_range_rev", SET(("c", "e"), ("a", "z"))),
        ("nested_char", SET(("a", "z"), "e")),
        ("nested_same_start", SET(("a", "z"), ("a", "c"))),
        ("cover_gap", SET(("a", "c"), ("x", "z"), ("b", "y"))),
        ("cover_gaps3", SET(("b", "c"), ("f", "g"), ("j", "k"), ("a", "m"))),
        ("cover_gap_diff_l", diff(SET(("a", "c"), ("x", "z"), ("b", "y")), C("m"))),
        ("cover_gap_diff_r", diff(SET(("a", "z")), SET(("c", "d"), ("p", "q"), ("b", "r")))),
        ("single_and_range", SET("a", ("a", "a"), ("b", "d"))),
        ("remove_piece_exact", diff(SET(("a", "c"), ("e", "g")), SET(("e", "g")))),
        ("remove_first_exact", diff(SET(("a", "c"), ("e", "g")), SET(("a", "c")))),
        ("remove_span_all", diff(SET(("b", "c"), ("e", "f"), ("h", "i"), "x"), SET(("a", "k")))),
        ("remove_span_two", diff(SET(("a", "c"), ("e", "g"), ("i", "k")), SET(("c", "e")))),
        ("remove_left_end", diff(SET(("a", "f")), SET(("a", "b")))),
        ("remove_right_end", diff(SET(("a", "f")), SET(("e", "f")))),
        ("remove_middle", diff(SET(("a", "f")), SET(("c", "d")))),
        ("remove_endpoints", diff(SET(("a", "f")), SET("a", "f"))),
        ("remove_touch_outside", diff(SET(("c", "f")), SET(("a", "b"), ("g", "h")))),
        ("remove_many_in_one", diff(SET(("a", "z")), SET("c", ("f", "h"), "m", ("x", "z")))),
        ("remove_nothing", diff(SET(("a", "c")), SET(("x", "z")))),
        ("chain2", diff(diff(SET(("a", "z")), SET(("d", "f"))), SET(("e", "k")))),
        ("chain3", diff(diff(diff(ANY, SET(("a", "m"))), C("q")), SET(("x", "z")))),
        ("any_minus_char", diff(ANY, C("a"))),
        ("any_minus_set", diff(ANY, SET(("a", "c"), "x"))),
        ("any_minus_lo", diff(ANY, C(chr(0)))),
        ("any_minus_hi", diff(ANY, C(chr(0x10FFFF)))),
        ("any_minus_around_sur", diff(ANY, SET((chr(0xD7FE), chr(0xD7FF)), (chr(0xE000), chr(0xE001))))),
        ("any_minus_d7ff", diff(ANY, C(chr(0xD7FF)))),
        ("any_minus_e000", diff(ANY, C(chr(0xE000)))),
        ("split_at_surrogates", SET((chr(0xD000), chr(0xE100)), chr(0xD7FF), chr(0xE000))),
        ("alt_classes", diff(alt(SET(("a", "c")), SET(("e", "g"))), alt(C("b"), C("f")))),
        ("alt_in_rhs", diff(SET(("a", "z")), alt(SET(("a", "c")), alt(C("m"), SET(("x", "z")))))),
        ("builtin_minus_range", diff(B("ascii_alphanumeric"), SET(("a", "f")))),
        ("builtin_minus_builtin", diff(B("ascii_alphanumeric"), B("ascii_digit"))),
        ("any_minus_builtin", diff(ANY, B("ascii"))),
        ("range_minus_builtin", diff(SET((chr(0), chr(0xFF))), B("ascii_graphic"))),
        ("big_minus_small", diff(B("alphabetic"), SET(("a", "z")))),
        ("var_class", diff(V("v"), C("c"))),
        ("wide", diff(SET((chr(0xE0), chr(0xFF)), (chr(0x4E00), chr(0x4E10))), SET((chr(0xF0), chr(0x4E05))))),
    ]
    for n, e in exprs:
        lets = [("v", SET(("a", "f")))] if n == "var_class" else []
        # the class alone, then followed by a literal (class leads to a non-terminal state)
        out.append(single("classes_%s" % n, "classes", e, lets))
        out.append(single("classes_%s_then" % n, "classes", cat(e, C("!")), lets))
    # class plus an overlapping literal and `_` in the same state
    out.append(Witness("classes_mixed_state", "classes", Def(top=rules(
        cat(diff(SET(("a", "k")), SET(("c", "e"))), C("1")), cat(C("d"), C("2")), cat(ANY, C("3")),
        cat(SET(("j", "p")), C("4"))))))
    # two classes whose overlap is exactly the surrogate block: the piece U+D800..U+DFFF of the merged
    # range map has a target set of its own and is dropped when the pieces are clamped to `char`s
    lo_sur = diff(ANY, SET((chr(0xE000), chr(0x10FFFF))))      # U+0000..U+DFFF
    sur_hi = diff(ANY, SET((chr(0), chr(0xD7FF))))              # U+D800..U+10FFFF
    out.append(Witness("classes_surrogate_overlap", "classes", Def(top=rules(
        cat(lo_sur, C("1")), cat(sur_hi, C("2"))))))
    out.append(Witness("classes_surrogate_overlap_alt", "classes", Def(top=rules(
        alt(cat(lo_sur, C("1")), cat(sur_hi, C("2"))), cat(C("a"), C("3"))))))
    out.append(Witness("classes_surrogate_overlap_any", "classes", Def(top=rules(
        cat(lo_sur, C("1")), cat(sur_hi, C("2")), cat(ANY, C("3"))))))
    n_rand = 100 if tier == "quick" else 520
    rnd = random.Random((seed if tier == "thorough" else 0) + 17)
    # the class algebra over a small universe: canonical and scrambled spellings of subsets of
    # {a..h}, combined as A # B, (A | B) # C, A # (B | C), (A # B) # C, (A | B)
    srnd = random.Random((seed if tier == "thorough" else 0) + 23)
    n_sys = 160 if tier == "quick" else 2000
    shapes = ["diff", "union_diff", "diff_union", "diff_diff", "union", "union_union_diff"]
    made = 0
    guard = 0
    while made < n_sys and guard < n_sys * 20:
        guard += 1
        sh = shapes[made % len(shapes)]
        sa, sb, sc = small_set(srnd), small_set(srnd), small_set(srnd)
        e = {"diff": diff(sa, sb), "union_diff": diff(alt(sa, sb), sc), "diff_union": diff(sa, alt(sb, sc)),
             "diff_diff": diff(diff(sa, sb), sc), "union": alt(sa, sb),
             "union_union_diff": diff(alt(alt(sa, sb), sc), small_set(srnd))}[sh]
        if not approx_class(e):
            continue
        out.append(single("classes_sys_%s_%d" % (sh, made), "classes",
                          cat(e, C("!")) if made % 2 else e))
        made += 1
    i = 0
    while i < n_rand:
        e = rand_class(rnd, 3)
        if not approx_class(e):
            continue        # an empty class is outside the properties' precondition
        out.append(single("classes_rand_%d_%d" % (seed if tier == "thorough" else 0, i), "classes",
                          cat(e, C("!")) if rnd.random() < 0.5 else e))
        i += 1
    return out


def small_set(rnd, lo=ord("a"), hi=ord("h")):
    """A bracket set denoting a random non-empty subset of a small universe, spelled either with
    maximal ranges in order, or scrambled with overlapping / adjacent / repeated items."""
    members = [c for c in range(lo, hi + 1) if rnd.random() < 0.5]
    if not members:
        members = [rnd.randint(lo, hi)]
    runs = []
    for c in members:
        if runs and runs[-1][1] == c - 1:
            runs[-1][1] = c
        else:
            runs.append([c, c])
    items = []
    for a, b in runs:
        style = rnd.random()
        if a == b:
            items.append(chr(a) if style < 0.7 else (chr(a), chr(a)))
        elif style < 0.5:
            items.append((chr(a), chr(b)))
        elif style < 0.75:
            m = rnd.randint(a, b)
            items.append((chr(a), chr(m)))
            items.append((chr(rnd.randint(a, m)), chr(b)))       # overlapping / adjacent pieces
        else:
            items.extend(chr(c) for c in range(a, b + 1))
    if rnd.random() < 0.4:
        rnd.shuffle(items)
    if rnd.random() < 0.2:
        items.append(items[0])
    return SET(*items)


ASCII_SETS = {
    "ascii_lowercase": ((97, 122),), "ascii_alphabetic": ((65, 90), (97, 122)),
    "ascii_hexdigit": ((48, 57), (65, 70), (97, 102)),
}


def approx_class(e):
    """Set denoted by a class expression over sets, `_`, `|`, `#` and the three ASCII built-ins the
    random generator uses (only to discard empty classes)."""
    from . import ivl
    from .refsem import class_set
    return class_set(e, {}, ASCII_SETS)


def rand_class(rnd, depth, lo=ord("a"), hi=ord("p")):
    def rset():
        items = []
        for _ in range(rnd.randint(1, 4)):
            a = rnd.randint(lo, hi)
            if rnd.random() < 0.3:
                items.append(chr(a))
            else:
                b = rnd.randint(a, min(hi, a + rnd.randint(0, 6)))
                items.append((chr(a), chr(b)))
        return SET(*items)
    if depth <= 0 or rnd.random() < 0.3:
        k = rnd.random()
        if k < 0.7:
            return rset()
        if k < 0.8:
            return C(chr(rnd.randint(lo, hi)))
        if k < 0.9:
            return ANY
        return B(rnd.choice(["ascii_lowercase", "ascii_alphabetic", "ascii_hexdigit"]))
    if rnd.random() < 0.35:
        return alt(rand_class(rnd, depth - 1, lo, hi), rand_class(rnd, depth - 1, lo, hi))
    a = rand_class(rnd, depth - 1, lo, hi)
    b = rand_class(rnd, depth - 1, lo, hi)
    return diff(a, b)


# ------------------------------------------------------------------------------------- builtins
SMALL_BUILTINS = [b for b in BUILTINS if b.startswith("ascii") or b in ("control", "whitespace")]
LARGE_BUILTINS = [b for b in BUILTINS if b not in SMALL_BUILTINS]


def fam_builtins(tier, seed):
    out = []
    for b in BUILTINS:
        # leading to a non-terminal state: guard chain (<= 9 ranges) or search table (more)
        out.append(single("builtins_%s_then" % b, "builtins", cat(B(b), C("!"))))
    for b in SMALL_BUILTINS:
        out.append(single("builtins_%s_alone" % b, "builtins", B(b)))
    out.append(Witness("builtins_combined", "builtins", Def(top=rules(
        cat(B("ascii_digit"), C("1")), cat(B("ascii_alphabetic"), C("2")),
        cat(alt(B("whitespace"), C("_")), C("3"))))))
    out.append(Witness("builtins_two_large", "builtins", Def(top=rules(
        cat(B("uppercase"), C("1")), cat(B("lowercase"), C("2")), cat(B("numeric"), C("3"))))))
    # a literal that is also a member of the class, in the same state: first / last character of a
    # range of the class, for guard-chain and search-table shapes
    members = {
        "ascii_hexdigit": "09afAF", "ascii_digit": "09", "ascii_lowercase": "az", "ascii_uppercase": "AZ",
        "ascii_alphabetic": "azAZ", "ascii_alphanumeric": "09azAZ", "ascii_whitespace": "\t\r ",
        "whitespace": "\t\r " + chr(0x85) + chr(0x3000), "ascii_punctuation": "!/:@[`{~",
        "alphabetic": "azAZ" + chr(0xAA) + chr(0xD6), "uppercase": "AZ" + chr(0xC0) + chr(0xD6),
        "lowercase": "az" + chr(0xDF) + chr(0xF6), "numeric": "09" + chr(0xB2) + chr(0xB3),
        "XID_Start": "azAZ", "XID_Continue": "09azAZ_", "control": chr(0) + chr(0x1F) + chr(0x7F) + chr(0x9F),
        "ascii_control": chr(0) + chr(0x1F) + chr(0x7F), "ascii_graphic": "!~", "ascii": chr(0) + chr(0x7F),
        "alphanumeric": "09azAZ",
    }
    for b in BUILTINS:
        for i, ch in enumerate(members[b]):
            out.append(Witness("builtins_%s_lit%d" % (b, i), "builtins", Def(top=rules(
                plus(B(b)), cat(C(ch), C("#")), C("#")))))
    # two rules whose built-in classes overlap in one state and lead to different continuations: the
    # pieces of the merged range map must keep their own targets (in both rule orders)
    overlaps = [("ascii_alphanumeric", "ascii_hexdigit"), ("alphabetic", "uppercase"), ("alphanumeric", "numeric"),
                ("ascii_graphic", "ascii_punctuation"), ("XID_Continue", "XID_Start")]
    for big, small in overlaps:
        out.append(Witness("builtins_overlap_%s_%s" % (big, small), "builtins", Def(top=rules(
            plus(B(big)), cat(B(small), C("!"))))))
        out.append(Witness("builtins_overlap_%s_%s_rev" % (big, small), "builtins", Def(top=rules(
            cat(B(small), C("!")), plus(B(big))))))
    # built-ins inside class expressions: as operands of `#` and `|`, nested on either side
    lo, al, asc, dig, alnum, hexd = (B("ascii_lowercase"), B("alphabetic"), B("ascii"), B("ascii_digit"),
                                     B("ascii_alphanumeric"), B("ascii_hexdigit"))
    nested = [
        ("or_of_diff_minus_char", diff(alt(lo, diff(al, asc)), C("q"))),
        ("diff_of_or_of_diff", diff(B("alphanumeric"), alt(dig, diff(alnum, hexd)))),
        ("diff_left_nested", diff(diff(alnum, dig), hexd)),
        ("or_diff_or", alt(diff(alnum, hexd), alt(dig, C("_")))),
        ("diff_then_or_left", diff(alt(diff(al, asc), lo), C("q"))),
        ("var_nested", diff(alt(V("lower"), diff(V("letters"), asc)), C("q"))),
    ]
    for n, e in nested:
        lets = [("lower", lo), ("letters", al)] if n == "var_nested" else []
        out.append(single("builtins_nested_%s" % n, "builtins", e, lets))
        out.append(single("builtins_nested_%s_then" % n, "builtins", cat(e, C("!")), lets))
    if tier == "thorough":
        for b in LARGE_BUILTINS:
            # terminal target: one match arm per range
            out.append(single("builtins_%s_alone" % b, "builtins", B(b)))
    return out


# ----------------------------------------------------------------------------------------- prec
def fam_prec(tier, seed):
    """Trees printed with minimal parentheses must be read back as the same tree."""
    out = []
    a, b, c = C("a"), C("b"), C("c")
    ts = []
    ops2 = [("alt", lambda x, y: ("alt", x, y)), ("cat", lambda x, y: ("cat", x, y))]
    ops1 = [("star", star), ("plus", plus), ("opt", opt)]
    # pairs and triples of operators in all nestings
    for n1, f1 in ops2:
        for n2, f2 in ops2:
            ts.append(("%s_l_%s" % (n1, n2), f1(f2(a, b), c)))
            ts.append(("%s_r_%s" % (n1, n2), f1(a, f2(b, c))))
        for n2, f2 in ops1:
            ts.append(("%s_lu_%s" % (n1, n2), f1(f2(a), b)))
            ts.append(("%s_ru_%s" % (n1, n2), f1(a, f2(b))))
            ts.append(("%s_of_%s" % (n2, n1), f2(f1(a, b))))
    for n1, f1 in ops1:
        for n2, f2 in ops1:
            ts.append(("%s_of_%s" % (n1, n2), f1(f2(a))))
    cls = SET(("a", "f"))
    ts += [
        ("diff_then_star", star(diff(cls, C("c")))),
        ("diff_then_plus_cat", cat(plus(diff(cls, C("c"))), C("x"))),
        ("cat_diff_l", cat(diff(cls, C("c")), C("x"))),
        ("cat_diff_r", cat(C("x"), diff(cls, C("c")))),
        ("alt_diff", alt(diff(cls, C("c")), C("x"))),
        ("diff_chain_left", diff(diff(cls, C("c")), C("d"))),
        ("diff_paren_right", diff(cls, diff(SET(("b", "e")), C("c")))),
        ("diff_of_alt", diff(alt(cls, SET(("x", "z"))), C("c"))),
        ("alt_cat_star", alt(cat(a, star(b)), c)),
        ("cat_alt_star", cat(alt(a, b), star(c))),
        ("star_cat_alt", star(cat(a, alt(b, c)))),
        ("str_star", cat(star(S("ab")), C("c"))),
        ("any_star_diff", cat(star(diff(ANY, C("x"))), C("x"))),
        ("eoi_cat", cat(a, EOI)),
        ("alt_with_eoi_tail", alt(cat(a, EOI), cat(b, c))),
    ]
    if tier == "thorough":
        for (n1, f1), (n2, f2), (n3, f3) in itertools.product(ops2, ops2, ops2):
            ts.append(("t3_%s_%s_%s_ll" % (n1, n2, n3), f1(f2(f3(a, b), c), C("d"))))
            ts.append(("t3_%s_%s_%s_rr" % (n1, n2, n3), f1(a, f2(b, f3(c, C("d"))))))
            ts.append(("t3_%s_%s_%s_lr" % (n1, n2, n3), f1(f2(a, b), f3(c, C("d")))))
        for (n1, f1), (n2, f2), (n3, f3) in itertools.product(ops1, ops2, ops1):
            ts.append(("t3u_%s_%s_%s" % (n1, n2, n3), f1(f2(f3(a), b))))
            ts.append(("t3v_%s_%s_%s" % (n1, n2, n3), f2(f1(a), f3(b))))
    for n, t in ts:
        re = t if not nullable(t) else ("cat", t, C("z"))
        out.append(Witness("prec_min_" + n, "prec", Def(top=[Rule(re)], minimal=True)))
        out.append(Witness("prec_full_" + n, "prec", Def(top=[Rule(re)], minimal=False)))
    # the same operator pairs with every KIND of atom in all leaf positions (adjacent atoms of one
    # token kind: string string, set set, variable variable, built-in built-in), minimal printing
    kinds = [("str", (S("ab"), S("cd"), S("ef")), []),
             ("set", (SET(("a", "c")), SET(("d", "f")), SET("g", "h")), []),
             ("var", (V("x"), V("y"), V("w")), [("let", "x", C("a")), ("let", "y", S("bc")),
                                                ("let", "w", SET(("d", "f")))]),
             ("mixed", (S("ab"), C("c"), S("de")), []), ("mixed2", (C("a"), S("bc"), SET(("d", "f"))), [])]
    for kn, (ka, kb, kc), lets in kinds:
        kts = []
        for n1, f1 in ops2:
            for n2, f2 in ops2:
                kts.append(("%s_l_%s" % (n1, n2), f1(f2(ka, kb), kc)))
                kts.append(("%s_r_%s" % (n1, n2), f1(ka, f2(kb, kc))))
            for n2, f2 in ops1:
                kts.append(("%s_lu_%s" % (n1, n2), f1(f2(ka), kb)))
                kts.append(("%s_ru_%s" % (n1, n2), f1(ka, f2(kb))))
                kts.append(("%s_of_%s" % (n2, n1), f2(f1(ka, kb))))
                kts.append(("%s_3ru_%s" % (n1, n2), f1(f1(ka, kb), f2(kc))))
        for n, t in kts:
            re = t if not nullable(t, {"x": C("a"), "y": S("bc"), "w": SET(("d", "f"))}) else ("cat", t, C("z"))
            out.append(Witness("prec_%s_%s" % (kn, n), "prec", Def(top=lets + [Rule(re)], minimal=True)))
    # variables: a bound regex is a unit; top-level lets visible in rule sets, local lets only there
    out.append(Witness("prec_var_unit", "prec", Def(top=[("let", "v", alt(a, b)), Rule(cat(V("v"), c))],
                                                    minimal=True)))
    out.append(Witness("prec_var_unit_star", "prec",
                       Def(top=[("let", "v", cat(a, b)), Rule(cat(star(V("v")), c))], minimal=True)))
    out.append(Witness("prec_var_top_in_sets", "prec", Def(
        top=[("let", "v", alt(a, S("bb")))],
        sets=[("Init", [Rule(cat(V("v"), c))]), ("R", [("let", "w", cat(V("v"), V("v"))), Rule(V("w")),
                                                        Rule(V("v"))])], minimal=True)))
    out.append(Witness("prec_var_local_same_name", "prec", Def(
        sets=[("Init", [("let", "v", a), Rule(cat(V("v"), c))]),
              ("R", [("let", "v", S("bb")), Rule(cat(V("v"), c))])], minimal=True)))
    out.append(Witness("prec_var_chain", "prec", Def(
        top=[("let", "x", alt(a, b)), ("let", "y", cat(V("x"), V("x"))), Rule(cat(V("y"), c)),
             Rule(V("x"))], minimal=True)))
    return out


# -------------------------------------------------------------------------------------- actions
def fam_actions(tier, seed):
    d = Def(name="L", state_type="u32", error_type="String", top=[
        Rule(C(" "), kind="skip"),
        Rule(C("a"), kind="simple", rhs="1"),
        Rule(C("b"), kind="infallible", rhs="|lexer| lexer.return_(2)"),
        Rule(C("c"), kind="infallible", rhs="|lexer| lexer.continue_()"),
        Rule(C("d"), kind="infallible", rhs="|lexer| { lexer.reset_match(); lexer.continue_() }"),
        Rule(C("e"), kind="fallible", rhs="|lexer| lexer.return_(Ok(5))"),
        Rule(C("f"), kind="fallible", rhs="|lexer| lexer.return_(Err(String::from(\"f\")))"),
        Rule(C("g"), kind="infallible",
             rhs="|lexer| { let n = lexer.match_().len(); let (s, e) = lexer.match_loc(); "
                 "let p = lexer.peek(); *lexer.state() += 1; "
                 "lexer.return_(n + s.byte_idx + e.byte_idx + p.map_or(0, |c| c as usize)) }"),
    ])
    kinds = {0: "skip", 1: "simple", 2: "infallible", 3: "infallible", 4: "infallible",
             5: "fallible", 6: "fallible", 7: "infallible"}
    out = [Witness("actions_all_kinds", "actions", d, kinds=kinds)]
    d2 = Def(name="L", sets=[
        ("Init", [Rule(C("a"), kind="infallible", rhs="|lexer| lexer.switch(LRule::Other)"),
                  Rule(C("b"), kind="infallible", rhs="|lexer| lexer.switch_and_return(LRule::Other, 1)"),
                  Rule(C("c"), kind="simple", rhs="2")]),
        ("Other", [Rule(C("x"), kind="infallible", rhs="|lexer| lexer.switch(LRule::Init)"),
                   Rule(C("y"), kind="skip"),
                   Rule(C("z"), kind="infallible", rhs="|lexer| lexer.switch_and_return(LRule::Init, 3)")]),
    ])
    out.append(Witness("actions_switch", "actions", d2,
                       kinds={0: "infallible", 1: "infallible", 2: "simple", 3: "infallible",
                              4: "skip", 5: "infallible"}))
    d3 = Def(name="L", token="&'input str", top=[
        Rule(plus(SET(("a", "z"))), kind="infallible",
             rhs="|lexer| { let m = lexer.match_(); lexer.return_(m) }"),
        Rule(C(" "), kind="skip"),
    ])
    out.append(Witness("actions_input_lifetime", "actions", d3, kinds={0: "infallible", 1: "skip"}))
    out.append(Witness("actions_user_fn", "actions", Def(name="L", top=[
        Rule(C("a"), kind="infallible", rhs="act"), Rule(C("b"), kind="fallible", rhs="act2")],
        error_type="u8"), kinds={0: "infallible", 1: "fallible"},
        prelude="fn act<'input, I: Iterator<Item = char> + Clone>(lexer: &mut L<'input, I>) -> "
                "lexgen_util::SemanticActionResult<usize> { lexer.return_(1) }\n"
                "fn act2<'input, I: Iterator<Item = char> + Clone>(lexer: &mut L<'input, I>) -> "
                "lexgen_util::SemanticActionResult<Result<usize, u8>> { lexer.return_(Err(1)) }\n"))
    # rules whose right-hand sides are the same text, next to rules of other kinds, in every
    # position relative to them, within one rule set and across rule sets
    clo = "|lexer| { *lexer.state() += 1; lexer.continue_() }"
    out.append(Witness("actions_dup_simple", "actions", Def(name="L", state_type="u32", top=[
        Rule(C(" "), kind="skip"),
        Rule(C("a"), kind="simple", rhs="7"),
        Rule(C("b"), kind="infallible", rhs=clo),
        Rule(C("c"), kind="simple", rhs="7"),
        Rule(C("d"), kind="simple", rhs="8"),
        Rule(S("ee"), kind="simple", rhs="7"),
        Rule(C("f"), kind="simple", rhs="8"),
    ]), kinds={0: "skip", 1: "simple", 2: "infallible", 3: "simple", 4: "simple", 5: "simple", 6: "simple"}))
    out.append(Witness("actions_dup_sets", "actions", Def(name="L", error_type="u8", sets=[
        ("Init", [Rule(C(" "), kind="skip"),
                  Rule(C("a"), kind="simple", rhs="1"),
                  Rule(C("s"), kind="infallible", rhs="|lexer| lexer.switch(LRule::Other)"),
                  Rule(C("|"), kind="simple", rhs="2")]),
        ("Other", [Rule(C("x"), kind="fallible", rhs="|lexer| lexer.return_(Err(3))"),
                   Rule(C("y"), kind="simple", rhs="2"),
                   Rule(C("z"), kind="simple", rhs="1"),
                   Rule(C("t"), kind="infallible", rhs="|lexer| lexer.switch(LRule::Init)")]),
    ]), kinds={0: "skip", 1: "simple", 2: "infallible", 3: "simple", 4: "fallible", 5: "simple",
               6: "simple", 7: "infallible"}))
    out.append(Witness("actions_dup_closures", "actions", Def(name="L", state_type="u32", top=[
        Rule(C("a"), kind="infallible", rhs=clo),
        Rule(C("b"), kind="simple", rhs="1"),
        Rule(C("c"), kind="infallible", rhs=clo),
        Rule(C(" "), kind="skip"),
        Rule(C("\t"), kind="skip"),
        Rule(C("d"), kind="infallible", rhs="|lexer| lexer.return_(1)"),
        Rule(C("e"), kind="simple", rhs="1"),
    ]), kinds={0: "infallible", 1: "simple", 2: "infallible", 3: "skip", 4: "skip", 5: "infallible",
               6: "simple"}))
    return out


# -------------------------------------------------------------------------------------- modules
def fam_modules(tier, seed):
    out = []
    big = cat(B("alphabetic"), C("!"))
    two = ("#![allow(warnings)]\n" +
           Def(name="A", top=[Rule(big), Rule(cat(B("numeric"), C("?")))]).render() +
           Def(name="B", top=[Rule(cat(B("uppercase"), C("!"))), Rule(cat(B("alphabetic"), C("?")))]).render())
    out.append(Witness("modules_two_table_lexers", "modules", raw=two, tv=False,
                       note="two lexers with binary-search tables in one module"))
    two_ctx = ("#![allow(warnings)]\n" +
               Def(name="A", top=[Rule(C("a"), ctx=S("bc")), Rule(C("b"))]).render() +
               Def(name="B", top=[Rule(C("a"), ctx=S("xy")), Rule(C("x"))]).render())
    out.append(Witness("modules_two_ctx_lexers", "modules", raw=two_ctx, tv=False))
    out.append(Witness("modules_tables_main_and_ctx", "modules", Def(top=[
        Rule(cat(B("alphabetic"), C("!")), ctx=cat(B("XID_Start"), C("?"))),
        Rule(cat(B("uppercase"), C("?"))), Rule(C("!")), Rule(C("?"))])))
    out.append(Witness("modules_tables_two_ctx", "modules", Def(top=[
        Rule(C("a"), ctx=cat(B("XID_Start"), C("?"))), Rule(C("a"), ctx=cat(B("numeric"), C("!"))),
        Rule(C("a")), Rule(C("?")), Rule(C("!"))])))
    out.append(Witness("modules_derive_clone", "modules",
                       Def(name="L", attrs=["#[derive(Clone, Debug)]", "/// doc"], vis="pub",
                           state_type="Vec<u32>", top=[Rule(plus(C("a"))), Rule(C("b"))]),
                       prelude="", note="derive(Clone) must reach the generated struct"))
    out.append(Witness("modules_clone_bound", "modules", raw=(
        "#![allow(warnings)]\n" +
        Def(name="L", attrs=["#[derive(Clone)]"], state_type="Vec<u32>",
            top=[Rule(plus(C("a")))]).render() +
        "fn needs_clone<T: Clone>(_: &T) {}\n"
        "pub fn f() { let l = L::new(\"aa\"); needs_clone(&l); let mut m = l.clone(); let _ = m.next(); }\n"),
        tv=False, note="L: Clone holds when the user state is Clone"))
    out.append(Witness("modules_state_lifetimes", "modules", raw=(
        "#![allow(warnings)]\npub struct St<'a, 'b>(&'a str, &'b str);\n" +
        Def(name="L", state_type="St<'a, 'input>",
            top=[Rule(plus(C("a")), kind="infallible",
                      rhs="|lexer| { let s = lexer.state().0.len(); lexer.return_(s) }")]).render()),
        tv=False))
    out.append(Witness("modules_pub_in_mod", "modules", raw=(
        "#![allow(warnings)]\npub mod m {\n" + Def(name="L", vis="pub", top=[Rule(C("a"))]).render() +
        "}\npub fn f() { let _ = m::L::new(\"a\").next(); }\n"), tv=False))
    out.append(Witness("modules_repeated_char", "modules",
                       Def(top=[Rule(cat(SET("a", "a", "b"), C("!")))])))
    out.append(Witness("modules_many_rules", "modules",
                       Def(top=rules(*[S("k%02d" % i) for i in range(40)] + [plus(SET(("a", "z")))]))))
    return out


# ------------------------------------------------------------------------------------ illformed
def fam_illformed(tier, seed):
    """One violation each; `twin` is the same definition without the violation (must compile)."""
    out = []
    a, b = C("a"), C("b")
    P = "#![allow(warnings)]\n"

    def pair(name, bad, good, note):
        out.append(Witness("illformed_%s_bad" % name, "illformed", raw=P + bad, expect="fail",
                           tv=False, note=note))
        out.append(Witness("illformed_%s_twin" % name, "illformed", raw=P + good, expect="pass",
                           tv=False, note="twin of " + name, twin_of="illformed_%s_bad" % name))

    def lx(body):
        return "lexgen::lexer! {\n    L -> usize;\n%s\n}\n" % body

    pair("unbound_var", lx("    $x 'b' = 1,"), lx("    let x = 'a';\n    $x 'b' = 1,"),
         "unbound variable")
    pair("unbound_var_late", lx("    'a' = 0,\n    rule Init { 'a' = 1, }\n    rule R { 'b' $y = 2, }")
         .replace("    'a' = 0,\n", ""),
         lx("    let y = 'c';\n    rule Init { 'a' = 1, }\n    rule R { 'b' $y = 2, }"),
         "unbound variable in a later rule set")
    pair("unbound_in_ctx", lx("    'a' > $x = 1,"), lx("    let x = 'b';\n    'a' > $x = 1,"),
         "unbound variable in a right context")
    pair("unbound_in_ctx_bound_in_earlier_rule_set",
         lx("    rule Init { let end = ';'; 'a' > $end = 1, }\n    rule R { 'b' > $end = 2, }"),
         lx("    rule Init { let end = ';'; 'a' > $end = 1, }\n    rule R { let end = ';'; 'b' > $end = 2, }"),
         "a right context uses a variable that only an earlier rule set binds (same context text)")
    pair("unbound_in_ctx_bound_in_earlier_rule_set_2",
         lx("    rule Init { let e = ' ' | $; \"ab\" > ($e | 'x') = 1, }\n    rule R { \"cd\" > ($e | 'x') = 2, 'c' = 3, }"),
         lx("    let e = ' ' | $;\n    rule Init { \"ab\" > ($e | 'x') = 1, }\n    rule R { \"cd\" > ($e | 'x') = 2, 'c' = 3, }"),
         "the same, inside a larger context expression")
    pair("unbound_in_diff", lx("    ['a'-'z'] # $x = 1,"), lx("    let x = 'b';\n    ['a'-'z'] # $x = 1,"),
         "unbound variable inside #")
    pair("var_twice", lx("    let x = 'a';\n    let x = 'b';\n    $x = 1,"),
         lx("    let x = 'a';\n    let y = 'b';\n    $x = 1,"), "variable defined twice")
    pair("var_twice_local", lx("    let x = 'a';\n    rule Init { let x = 'b'; $x = 1, }"),
         lx("    let x = 'a';\n    rule Init { let y = 'b'; $x = 1, }"),
         "rule-set-local variable redefines a top-level one")
    pair("scope_leak", lx("    rule Init { let x = 'a'; $x = 1, }\n    rule R { $x = 2, }"),
         lx("    rule Init { let x = 'a'; $x = 1, }\n    rule R { let x = 'a'; $x = 2, }"),
         "variable bound in rule set Init used in rule set R")
    pair("ruleset_twice", lx("    rule Init { 'a' = 1, }\n    rule R { 'b' = 2, }\n    rule R { 'c' = 3, }"),
         lx("    rule Init { 'a' = 1, }\n    rule R { 'b' = 2, }\n    rule Q { 'c' = 3, }"),
         "rule set defined twice")
    pair("init_twice", lx("    rule Init { 'a' = 1, }\n    rule Init { 'b' = 2, }"),
         lx("    rule Init { 'a' = 1, }\n    rule R { 'b' = 2, }"), "Init defined twice")
    pair("first_not_init", lx("    rule R { 'a' = 1, }\n    rule Init { 'b' = 2, }"),
         lx("    rule Init { 'a' = 1, }\n    rule R { 'b' = 2, }"), "first rule set not Init")
    pair("mixed_named_unnamed", lx("    'a' = 1,\n    rule Init { 'b' = 2, }"),
         lx("    rule Init { 'a' = 1, 'b' = 2, }"), "named and unnamed rules mixed")
    pair("mixed_named_unnamed_after", lx("    rule Init { 'b' = 2, }\n    'a' = 1,"),
         lx("    rule Init { 'b' = 2, 'a' = 1, }"), "unnamed rule after a rule set")
    pair("unknown_builtin", lx("    $$alphabetical = 1,"), lx("    $$alphabetic = 1,"), "unknown built-in")
    pair("unknown_builtin_in_diff", lx("    _ # $$digits = 1,"), lx("    _ # $$ascii_digit = 1,"),
         "unknown built-in inside #")
    for nm, bad_op in (("str", '"ab"'), ("star", "('a'*)"), ("plus", "('a'+)"), ("opt", "('a'?)"),
                       ("cat", "('a' 'b')"), ("eoi", "$")):
        pair("diff_operand_%s_r" % nm, lx("    ['a'-'z'] # %s = 1," % bad_op),
             lx("    ['a'-'z'] # 'a' = 1,"), "right operand of # is not a character class (%s)" % nm)
    pair("diff_operand_str_l", lx('    "ab" # \'a\' = 1,'), lx("    ['a' 'b'] # 'a' = 1,"),
         "left operand of # is not a character class")
    pair("diff_operand_var", lx("    let v = 'a' 'b';\n    ['a'-'z'] # $v = 1,"),
         lx("    let v = 'a' | 'b';\n    ['a'-'z'] # $v = 1,"), "variable operand of # is not a class")
    pair("error_type_twice", lx("    type Error = u8;\n    type Error = u16;\n    'a' = 1,"),
         lx("    type Error = u8;\n    'a' = 1,"), "error type declared twice")
    pair("syntax_missing_rhs", lx("    'a' 'b'"), lx("    'a' 'b',"), "malformed: rule without terminator")
    pair("syntax_bad_regex", lx("    'a' | = 1,"), lx("    'a' | 'b' = 1,"), "malformed regex")
    pair("syntax_unclosed_set", lx("    ['a'-] = 1,"), lx("    ['a'-'b'] = 1,"), "malformed bracket set")
    pair("syntax_bad_item", lx("    fn x() {}\n    'a' = 1,"), lx("    'a' = 1,"), "unknown item")
    pair("syntax_no_arrow", "lexgen::lexer! {\n    L usize;\n    'a' = 1,\n}\n", lx("    'a' = 1,"),
         "missing -> in header")
    # malformed syntax, one token-level slip each, at the places where a regex may stand (rule, `let`,
    # right context, operand of an operator)
    slips = [
        ("builtin_no_name", "    'a' $$ = 1,", "    'a' $ = 1,", "`$$` without a name"),
        ("builtin_no_name_alt", "    $$ | 'a' = 1,", "    $ | 'a' = 1,", "`$$` without a name before `|`"),
        ("builtin_no_name_let", "    let x = 'b' $$;\n    $x = 1,", "    let x = 'b' $;\n    $x = 1,",
         "`$$` without a name in a `let`"),
        ("builtin_no_name_ctx", "    'a' > $$ = 1,", "    'a' > $ = 1,", "`$$` without a name as right context"),
        ("builtin_no_name_group", "    ($$) 'a' = 1,", "    ($$ascii_digit) 'a' = 1,", "`$$` without a name in a group"),
        ("builtin_literal_name", "    $$'a' = 1,", "    $$ascii_digit 'a' = 1,", "`$$` followed by a literal"),
        ("postfix_no_operand", "    * 'a' = 1,", "    'a'* 'a' = 1,", "postfix operator without operand"),
        ("postfix_after_bar", "    'a' | + = 1,", "    'a' | 'b'+ = 1,", "postfix operator without operand after `|`"),
        ("diff_no_right", "    ['a'-'z'] # = 1,", "    ['a'-'z'] # 'b' = 1,", "`#` without right operand"),
        ("diff_no_left", "    # 'a' = 1,", "    _ # 'a' = 1,", "`#` without left operand"),
        ("alt_no_left", "    | 'a' = 1,", "    'b' | 'a' = 1,", "`|` without left operand"),
        ("empty_group", "    () 'a' = 1,", "    ('b') 'a' = 1,", "empty group"),
        ("set_leading_dash", "    [-'a'] = 1,", "    ['a'-'a'] = 1,", "bracket set starting with `-`"),
        ("set_string", '    ["ab"] = 1,', "    ['a' 'b'] = 1,", "string inside a bracket set"),
        ("set_double_range", "    ['a'-'c'-'e'] = 1,", "    ['a'-'c' 'e'] = 1,", "range of a range"),
        ("set_any", "    [_] = 1,", "    ['_'] = 1,", "`_` inside a bracket set"),
        ("set_dots", "    ['a'..'c'] = 1,", "    ['a'-'c'] = 1,", "`..` instead of `-` in a bracket set"),
        ("ctx_missing", "    'a' > = 1,", "    'a' > 'b' = 1,", "`>` without a right context"),
        ("ctx_twice", "    'a' > 'b' > 'c' = 1,", "    'a' > 'b' 'c' = 1,", "two right contexts"),
        ("rule_no_rhs", "    'a' = ,", "    'a' = 1,", "`=` without an action"),
        ("rule_no_comma_between", "    'a' = 1 'b' = 2,", "    'a' = 1, 'b' = 2,", "missing comma between rules"),
        ("let_no_name", "    let = 'a';\n    'a' = 1,", "    let x = 'a';\n    'a' = 1,", "`let` without a name"),
        ("let_no_eq", "    let x 'a';\n    'a' = 1,", "    let x = 'a';\n    'a' = 1,", "`let` without `=`"),
        ("let_no_semi", "    let x = 'a'\n    'b' = 1,", "    let x = 'a';\n    'b' = 1,", "`let` without `;`"),
        ("let_empty", "    let x = ;\n    'b' = 1,", "    let x = 'a';\n    'b' = 1,", "`let` without a regex"),
        ("ruleset_no_name", "    rule { 'a' = 1, }", "    rule Init { 'a' = 1, }", "rule set without a name"),
        ("ruleset_no_braces", "    rule Init 'a' = 1,", "    rule Init { 'a' = 1, }", "rule set without braces"),
        ("error_type_no_type", "    type Error;\n    'a' = 1,", "    type Error = u8;\n    'a' = 1,",
         "error type declaration without a type"),
        ("type_other_name", "    type Mistake = u8;\n    'a' = 1,", "    type Error = u8;\n    'a' = 1,",
         "a type item that is not `Error`"),
        ("int_literal", "    1 = 1,", "    '1' = 1,", "integer literal as a regex"),
        ("byte_literal", "    b'a' = 1,", "    'a' = 1,", "byte literal as a regex"),
        ("ident_regex", "    a = 1,", "    'a' = 1,", "bare identifier as a regex"),
    ]
    for nm, bad, good, note in slips:
        pair("syntax_" + nm, lx(bad), lx(good), "malformed: " + note)
    return out


# ------------------------------------------------------------------------------------------ mix
def fam_mix(tier, seed):
    """Random whole definitions combining every feature: several rule sets, top-level and local
    variables, right contexts, `$` tails, classes with differences, built-ins, multi-byte
    characters. All well-formed by construction (non-nullable rules, non-empty classes, `$` only at
    the tail, variables bound before use)."""
    out = []
    n = 150 if tier == "quick" else 1500
    rnd = random.Random((seed if tier == "thorough" else 0) + 31)
    rnd_rhs = random.Random((seed if tier == "thorough" else 0) + 77)
    RHS_POOL = [("skip", None), ("simple", "1"), ("simple", "2"), ("simple", "1"),
                ("infallible", "|lexer| lexer.return_(1)"), ("infallible", "|lexer| lexer.continue_()")]
    alphabet = "abcxy" + chr(0xE9) + chr(0x2192)
    classes = [SET(("a", "c")), SET(("b", "y")), SET("a", ("x", "y")), B("ascii_digit"),
               diff(SET(("a", "y")), SET(("c", "x"))), diff(ANY, SET(("a", "c"))), SET((chr(0xE0), chr(0xFF))),
               alt(SET(("a", "b")), SET(("x", "y")))]

    def atom(vars_):
        k = rnd.random()
        if k < 0.4:
            return C(rnd.choice(alphabet))
        if k < 0.6:
            return rnd.choice(classes)
        if k < 0.72:
            return S("".join(rnd.choice(alphabet) for _ in range(rnd.randint(2, 3))))
        if k < 0.8:
            return ANY
        if k < 0.95 and vars_:
            return V(rnd.choice(sorted(vars_)))
        return C(rnd.choice("abc"))

    def regex(depth, vars_):
        if depth <= 0 or rnd.random() < 0.3:
            return atom(vars_)
        k = rnd.random()
        if k < 0.45:
            return ("cat", regex(depth - 1, vars_), regex(depth - 1, vars_))
        if k < 0.65:
            return ("alt", regex(depth - 1, vars_), regex(depth - 1, vars_))
        if k < 0.78:
            return ("star", regex(depth - 1, vars_))
        if k < 0.9:
            return ("plus", regex(depth - 1, vars_))
        return ("opt", regex(depth - 1, vars_))

    def rule(env):
        r = regex(rnd.randint(1, 3), set(env))
        if nullable(r, env):
            r = ("cat", r, C(rnd.choice("abc")))
        if rnd.random() < 0.15:
            r = ("cat", r, EOI)
        ctx = None
        if rnd.random() < 0.3:
            ctx = regex(rnd.randint(0, 2), set(env))
            if rnd.random() < 0.25:
                ctx = alt(ctx, EOI)
        # right-hand sides: half of the rules get one from a small pool, so that equal actions occur
        # at random positions among rules of other kinds (separate generator: the regexes of the
        # family stay what they were)
        if rnd_rhs.random() < 0.5:
            kind, rhs = rnd_rhs.choice(RHS_POOL)
            return Rule(r, ctx=ctx, kind=kind, rhs=rhs)
        return Rule(r, ctx=ctx)

    for i in range(n):
        env = {}
        top = []
        for j in range(rnd.randint(0, 2)):
            name = "t%d" % j
            r = regex(rnd.randint(0, 2), set(env))
            top.append(("let", name, r))
            env[name] = r
        if rnd.random() < 0.5:
            items = list(top)
            for _ in range(rnd.randint(2, 5)):
                items.append(rule(env))
            d = Def(top=items)
        else:
            sets = []
            names = ["Init"] + ["R%d" % k for k in range(rnd.randint(1, 3))]
            for sn in names:
                local = dict(env)
                items = []
                if rnd.random() < 0.4:
                    r = regex(rnd.randint(0, 2), set(local))
                    items.append(("let", "l", r))
                    local["l"] = r
                for _ in range(rnd.randint(0 if sn != "Init" else 1, 4)):
                    items.append(rule(local))
                sets.append((sn, items))
            d = Def(top=top, sets=sets)
        out.append(Witness("mix_%d_%d" % (seed if tier == "thorough" else 0, i), "mix", d))
    return out


FAMILIES = {
    "mix": fam_mix,
    "ops": fam_ops, "munch": fam_munch, "rulesets": fam_rulesets, "rctx": fam_rctx, "eoi": fam_eoi,
    "classes": fam_classes, "builtins": fam_builtins, "prec": fam_prec, "actions": fam_actions,
    "modules": fam_modules, "illformed": fam_illformed,
}


def family(name, tier="quick", seed=0):
    ws = FAMILIES[name](tier, seed)
    names = set()
    for w in ws:
        w.name = "w_" + "".join(ch if ch.isalnum() or ch == "_" else "_" for ch in w.name)
        assert w.name not in names, w.name
        names.add(w.name)
    return ws
