"""segx: path-sensitive abstract interpreter over mirdump's JSON MIR ("segment explorer").

Explores an acyclic region of one function's CFG from a start block, forking at every SwitchInt
whose operand is not determined, and carries per path:

* a store of cells (root, field path) -> abstract value (roots: MIR locals, symbolic objects behind
  pointers, temporaries of promoted constants);
* path facts: the branch taken for each opaque value already switched on (so a repeated test of the
  same value is consistent) and an exact interval set for every character variable;
* an ordered event list (heap writes, calls, asserts).

There is no solver: values are constants, symbolic entry values, opaque call results, interval sets.
A callee without a model yields an opaque value and an event; clients decide whether that is
acceptable (rules that need a precise value fail closed).
"""
import re
from . import ivl

CMP_OPS = ("Eq", "Ne", "Lt", "Le", "Gt", "Ge")
UNIT = ("unit",)
UNINIT = ("uninit",)


def norm_path(p):
    """Strip generic arguments from a printed def path:
    `lexgen_util::Lexer::<'a, I>::next` -> `lexgen_util::Lexer::next`,
    `<std::iter::Peekable<I> as std::iter::Iterator>::next` -> `<std::iter::Peekable as
    std::iter::Iterator>::next`; `<impl char>` groups are kept."""
    if p is None:
        return None
    out = []
    i, n = 0, len(p)
    while i < n:
        ch = p[i]
        if ch == "<":
            prev = p[i - 1] if i > 0 else ""
            is_args = (prev.isalnum() or prev == "_") or (i >= 2 and p[i - 2:i] == "::")
            if is_args and not p.startswith("<impl ", i):
                depth = 0
                j = i
                while j < n:
                    if p[j] == "<":
                        depth += 1
                    elif p[j] == ">" and p[j - 1] != "-":
                        depth -= 1
                        if depth == 0:
                            break
                    j += 1
                if i >= 2 and p[i - 2:i] == "::":
                    del out[-2:]
                i = j + 1
                continue
        out.append(ch)
        i += 1
    r = "".join(out)
    if "BTree" in r or "btree_" in r:
        # the rules speak about maps, sets and their entry API, not about how they are implemented:
        # the ordered collections are read under the names of the hashed ones (callee paths only;
        # types of locals and fields keep their names - R-DET and R-ORDER look at those)
        r = (r.replace("std::collections::BTreeMap", "std::collections::HashMap")
              .replace("std::collections::btree_map::", "std::collections::hash_map::")
              .replace("std::collections::BTreeSet", "std::collections::HashSet")
              .replace("std::collections::btree_set::", "std::collections::hash_set::"))
    if "VecDeque" in r or "vec_deque::" in r:
        # a work list is a work list whether it is popped at the back or at the front
        r = (r.replace("std::collections::VecDeque::pop_front", "std::vec::Vec::pop")
              .replace("std::collections::VecDeque::pop_back", "std::vec::Vec::pop")
              .replace("std::collections::VecDeque::push_back", "std::vec::Vec::push")
              .replace("std::collections::VecDeque::push_front", "std::vec::Vec::push")
              .replace("std::collections::VecDeque", "std::vec::Vec")
              .replace("std::collections::vec_deque::", "std::vec::"))
    return r


# public types of the runtime, whose field names the rule tables use; any other struct of lexgen_util is
# private plumbing (e.g. a `Checkpoint { start, iter, action, end }` replacing the tuple in `last_match`)
# and is viewed positionally, so that the tables do not depend on how such a struct names its fields
RUNTIME_PUBLIC = {"Lexer", "Loc", "LexerError", "LexerErrorKind", "SemanticActionResult"}


PRIVATE_RUNTIME_ADTS = set()      # filled when the facts of crate lexgen_util are loaded (program.py)


def private_runtime_struct(adt_path):
    return adt_path in PRIVATE_RUNTIME_ADTS


def short_field(name, index=None):
    owner = name.rsplit(".", 1)[0] if "." in name else ""
    n = name.rsplit(".", 1)[-1]
    if index is not None and owner:
        # owner looks like `<adt path>::<Variant>`
        adt_path = owner.rsplit("::", 1)[0] if "::" in owner else owner
        if private_runtime_struct(adt_path):
            return str(index)
    return n[1:] if n.startswith("#") else n



class Path(object):
    """One explored path. `cells` maps root -> {field path -> value}; inner dicts are shared
    between clones and copied on first write (`owned`)."""
    __slots__ = ("cells", "owned", "facts", "chars", "events", "visits", "data")

    def __init__(self):
        self.cells = {}
        self.owned = set()
        self.facts = {}
        self.chars = {}
        self.events = []
        self.visits = {}
        self.data = {}

    def clone(self):
        p = Path()
        p.cells = dict(self.cells)
        self.owned = set()
        p.facts = dict(self.facts)
        p.chars = dict(self.chars)
        p.events = list(self.events)
        p.visits = dict(self.visits)
        p.data = dict(self.data)
        return p

    def inner(self, root, create=False):
        d = self.cells.get(root)
        if d is None:
            if not create:
                return None
            d = {}
            self.cells[root] = d
            self.owned.add(root)
            return d
        if create and root not in self.owned:
            d = dict(d)
            self.cells[root] = d
            self.owned.add(root)
        return d

    def set_cell(self, root, path, v):
        self.inner(root, True)[path] = v


class Call(object):
    __slots__ = ("callee", "full", "decl", "args", "arg_ops", "dest", "target", "site", "span",
                 "fnval", "from_expansion")


class Cut(Exception):
    """Raised by a call model to end the current path at this call."""

    def __init__(self, info):
        Exception.__init__(self)
        self.info = info


def project(v, el):
    k = v[0]
    if k == "adt":
        if el.startswith("@"):
            if v[2] == el[1:]:
                return v
            return ("proj", v, el)
        for name, val in v[4]:
            if name == el:
                return val
        return ("proj", v, el)
    if k == "tuple" or k == "array":
        if el.isdigit() and int(el) < len(v[1]):
            return v[1][int(el)]
        return ("proj", v, el)
    if k == "closure":
        if el.isdigit() and int(el) < len(v[2]):
            return v[2][int(el)]
        return ("proj", v, el)
    if k == "agg":
        base, ovs = v[1], v[2]
        sub = []
        for p, val in ovs:
            if p[0] == el:
                if len(p) == 1:
                    return val
                sub.append((p[1:], val))
        pb = project(base, el)
        if sub:
            return ("agg", pb, tuple(sub))
        return pb
    if k == "entry":
        return ("entry", v[1], v[2] + (el,))
    if k == "bytes" and not any(v[2]) and not el.startswith("@"):
        # a field of an all-zero plain-data constant is zero
        return ("int", 0, "zero")
    return ("proj", v, el)


def override(base, rel, val):
    """Functional update of aggregate value `base` at relative path `rel`."""
    if not rel:
        return val
    if base[0] == "adt" and not rel[0].startswith("@"):
        fields = []
        hit = False
        for name, fv in base[4]:
            if name == rel[0]:
                fields.append((name, override(fv, rel[1:], val)))
                hit = True
            else:
                fields.append((name, fv))
        if hit:
            return ("adt", base[1], base[2], base[3], tuple(fields))
    if base[0] == "tuple" and rel[0].isdigit() and int(rel[0]) < len(base[1]):
        i = int(rel[0])
        items = list(base[1])
        items[i] = override(items[i], rel[1:], val)
        return ("tuple", tuple(items))
    if base[0] == "agg":
        ovs = [(p, v) for p, v in base[2] if p[:len(rel)] != rel]
        # an existing override that is an ancestor of rel
        for i, (p, v) in enumerate(ovs):
            if rel[:len(p)] == p:
                ovs[i] = (p, override(v, rel[len(p):], val))
                return ("agg", base[1], tuple(sorted(ovs, key=repr)))
        ovs.append((rel, val))
        return ("agg", base[1], tuple(sorted(ovs, key=repr)))
    return ("agg", base, ((rel, val),))


class Engine(object):
    def __init__(self, body, models=None, stop_blocks=(), max_visits=1, on_switch=None,
                 frame=None, depth=0):
        self.body = body
        self.mir = body["mir"] if "mir" in body else body
        self.blocks = self.mir["blocks"]
        self.locals = self.mir["locals"]
        self.argc = self.mir["argc"]
        self.promoted = body.get("promoted", [])
        self.models = models
        self.stop_blocks = set(stop_blocks)
        self.max_visits = max_visits
        self.on_switch = on_switch
        self.frame = frame
        self.depth = depth
        self._promoted_cache = {}
        self.steps = 0

    def lr(self, l):
        """Store root of MIR local l in this frame."""
        return l if self.frame is None else ("fr", self.frame, l)

    # ---------------------------------------------------------------- store
    def default(self, root, path):
        if isinstance(root, int):
            if 1 <= root <= self.argc:
                v = ("param", root)
                for el in path:
                    v = project(v, el)
                return v
            return UNINIT
        if root[0] == "fr":
            return UNINIT
        if root[0] in ("obj",):
            return ("entry", root, path)
        return UNINIT

    def read(self, st, root, path):
        if isinstance(root, tuple) and root[0] == "pconst":
            v = root[1]
            for el in path:
                v = project(v, el)
            return v
        cells = st.cells.get(root)
        if cells:
            for k in range(len(path), -1, -1):
                key = path[:k]
                if key in cells:
                    v = cells[key]
                    for el in path[k:]:
                        v = project(v, el)
                    return v
            n = len(path)
            ovs = [(p[n:], v) for p, v in cells.items() if len(p) > n and p[:n] == path]
            if ovs:
                return ("agg", self.default(root, path), tuple(sorted(ovs, key=repr)))
        return self.default(root, path)

    def write(self, st, root, path, v, site=None, quiet=False):
        if isinstance(root, tuple) and root[0] == "pconst":
            return
        cells = st.inner(root, True)
        n = len(path)
        if len(cells) > 0:
            for key in [k for k in cells if len(k) > n and k[:n] == path]:
                del cells[key]
        done = False
        for k in range(n - 1, -1, -1):
            key = path[:k]
            if key in cells:
                cells[key] = override(cells[key], path[k:], v)
                done = True
                break
        if not done:
            cells[path] = v
        if not quiet and not isinstance(root, int) and root[0] not in ("fr", "promoted"):
            st.events.append(("write", root, path, v, site))

    def resolve(self, st, place):
        root, path = self.lr(place["l"]), ()
        for e in place["p"]:
            if e == "*":
                v = self.read(st, root, path)
                if v[0] == "ref":
                    root, path = v[1], v[2]
                else:
                    root, path = ("obj", v), ()
            elif "f" in e:
                path = path + (short_field(e["f"], e.get("i")),)
            elif "as" in e:
                path = path + ("@" + e["as"],)
            elif "idx" in e:
                path = path + ("[_%d]" % e["idx"],)
            else:
                path = path + ("?" + str(e.get("other")),)
        return root, path

    def rd_place(self, st, place):
        root, path = self.resolve(st, place)
        return self.read(st, root, path)

    def wr_place(self, st, place, v, site=None):
        root, path = self.resolve(st, place)
        self.write(st, root, path, v, site)

    # ---------------------------------------------------------------- values
    def operand(self, st, o):
        if "copy" in o:
            return self.rd_place(st, o["copy"])
        if "move" in o:
            return self.rd_place(st, o["move"])
        if "int" in o:
            return ("int", o["int"], o["ty"])
        if "fn" in o:
            return ("fn", o["path"], o["fn"])
        if "static" in o:
            return ("ref", ("static", o["static"]), ())
        if "const" in o:
            c = o["const"]
            m = re.search(r"promoted\[(\d+)\]$", c)
            if m:
                return self.eval_promoted(st, int(m.group(1)))
            if c == "()":
                return UNIT
            if "bytes" in o:
                return ("bytes", o["ty"], tuple(o["bytes"]), c)
            return ("sym", c, o.get("ty"))
        return ("opaque", repr(o))

    def eval_promoted(self, st, idx):
        """Value of promoted constant idx: a reference to an immutable temporary."""
        if idx not in self._promoted_cache:
            pb = self.promoted[idx]
            sub = Engine({"mir": pb, "promoted": []}, models=self.models)
            res = sub.run(0, Path())
            val = ("opaque", "promoted")
            if len(res) == 1 and res[0][1][0] == "RETURN":
                p, end = res[0]
                rv = end[1]
                if rv[0] == "ref" and (isinstance(rv[1], int) or rv[1][0] == "fr"):
                    val = sub.read(p, rv[1], rv[2])
                else:
                    val = rv
            self._promoted_cache[idx] = val
        # an immutable temporary: the value is carried in the reference itself (no store cell)
        return ("ref", ("pconst", self._promoted_cache[idx]), ())

    def rvalue(self, st, rv):
        k = rv["k"]
        if k == "use":
            return self.operand(st, rv["o"])
        if k == "ref" or k == "rawptr":
            root, path = self.resolve(st, rv["p"])
            if not path and isinstance(root, tuple) and root[0] == "obj":
                # `&*p` of an opaque pointer p is p itself
                return root[1]
            return ("ref", root, path)
        if k == "discr":
            v = self.rd_place(st, rv["p"])
            if v[0] == "adt":
                return ("int", v[3], "isize")
            return ("discr", v)
        if k == "bin":
            a, b = self.operand(st, rv["a"]), self.operand(st, rv["b"])
            return self.binop(rv["op"], a, b)
        if k == "un":
            a = self.operand(st, rv["a"])
            if rv["op"] == "Not" and a[0] == "int" and a[2] == "bool":
                return ("int", 1 - a[1], "bool")
            return ("un", rv["op"], a)
        if k == "cast":
            v = self.operand(st, rv["o"])
            kind = rv["kind"]
            if kind.startswith("PointerCoercion"):
                return v
            if kind in ("IntToInt",) and v[0] == "int":
                return ("int", v[1], rv["ty"])
            if kind == "IntToInt" and v[0] == "char":
                return v
            return ("cast", kind, v, rv["ty"])
        if k == "agg":
            kind = rv["kind"]
            ops = tuple(self.operand(st, o) for o in rv["ops"])
            a = kind.get("agg")
            if a == "tuple":
                return ("tuple", ops)
            if a == "array":
                return ("array", ops)
            if a == "adt":
                if private_runtime_struct(kind["adt"]):
                    return ("tuple", ops)       # a private struct of the runtime, viewed positionally
                return ("adt", kind["adt"], kind["variant"], kind.get("dv", kind["vi"]),
                        tuple(zip(kind["fields"], ops)))
            if a == "closure":
                return ("closure", kind["def"], ops)
            return ("opaque", repr(kind))
        return ("opaque", rv.get("dbg", k))

    def binop(self, op, a, b):
        if op.endswith("WithOverflow"):
            base = op[:-len("WithOverflow")]
            return ("tuple", (self.binop(base, a, b), ("ovf", base, a, b)))
        if a[0] == "int" and b[0] == "int":
            x, y = a[1], b[1]
            if op in CMP_OPS:
                r = {"Eq": x == y, "Ne": x != y, "Lt": x < y, "Le": x <= y, "Gt": x > y,
                     "Ge": x >= y}[op]
                return ("int", int(r), "bool")
            if op == "Add":
                return ("int", x + y, a[2])
            if op == "Sub" and x >= y:
                return ("int", x - y, a[2])
        return ("bin", op, a, b)

    # ---------------------------------------------------------------- char predicates
    def char_pred(self, st, v):
        """If v is a boolean that constrains a char variable, return (cid, set-where-true)."""
        if v[0] == "inset":
            return v[1], v[2]
        if v[0] == "bin" and v[1] in CMP_OPS:
            op, a, b = v[1], v[2], v[3]
            if b[0] == "char" and a[0] == "int":
                a, b = b, a
                op = {"Lt": "Gt", "Le": "Ge", "Gt": "Lt", "Ge": "Le"}.get(op, op)
            if a[0] == "char" and b[0] == "int":
                c = b[1]
                s = {
                    "Eq": ((c, c),),
                    "Ne": ivl.minus(ivl.FULL, ((c, c),)),
                    "Lt": ivl.inter(ivl.FULL, ((0, c - 1),)) if c > 0 else (),
                    "Le": ivl.inter(ivl.FULL, ((0, c),)),
                    "Gt": ivl.inter(ivl.FULL, ((c + 1, ivl.MAXC),)),
                    "Ge": ivl.inter(ivl.FULL, ((c, ivl.MAXC),)),
                }[op]
                return a[1], s
        return None

    # ---------------------------------------------------------------- exploration
    def run(self, start_block, path, label=None):
        out = []
        work = [(start_block, path, True)]
        fr = self.frame
        while work:
            b, st, first = work.pop()
            while True:
                self.steps += 1
                n = st.visits.get((fr, b), 0)
                if b in self.stop_blocks and not first:
                    out.append((st, ("STOP", b)))
                    break
                first = False
                if n >= self.max_visits:
                    out.append((st, ("CYCLE", b)))
                    break
                st.visits[(fr, b)] = n + 1
                bb = self.blocks[b]
                for s in bb["st"]:
                    if "lhs" in s:
                        v = self.rvalue(st, s["rv"])
                        root, pth = self.resolve(st, s["lhs"])
                        self.write(st, root, pth, v, (b, s.get("ln")))
                    elif "setdiscr" in s:
                        st.events.append(("setdiscr", s, b))
                t = bb["term"]
                k = t["k"]
                if k == "goto":
                    b = t["t"]
                    continue
                if k == "drop":
                    b = t["t"]
                    continue
                if k == "assert":
                    st.events.append(("assert", t["kind"], b, bb.get("span"),
                                      tuple(self.operand(st, o) for o in t.get("ops", []))))
                    b = t["t"]
                    continue
                if k == "return":
                    out.append((st, ("RETURN", self.read(st, self.lr(0), ()))))
                    break
                if k == "unreachable":
                    break
                if k == "unwind":
                    break
                if k == "switch":
                    succ = self.do_switch(st, t, b)
                    if not succ:
                        break
                    for tgt, q in succ[1:]:
                        work.append((tgt, q, False))
                    b, st = succ[0]
                    continue
                if k == "call":
                    try:
                        conts = self.do_call(st, t, b, bb.get("span"))
                    except Cut as c:
                        out.append((st, ("CUT", c.info)))
                        break
                    if t["t"] < 0:
                        for q, _ in conts:
                            out.append((q, ("DIVERGE", b)))
                        break
                    if not conts:
                        break
                    for q, rv in conts:
                        root, pth = self.resolve(q, t["dest"])
                        self.write(q, root, pth, rv, (b, None))
                    for q, _ in conts[1:]:
                        work.append((t["t"], q, False))
                    b, st = t["t"], conts[0][0]
                    continue
                out.append((st, ("OTHER", k, b)))
                break
        return out

    def do_switch(self, st, t, b):
        """Return list of (target block, path)."""
        v = self.operand(st, t["d"])
        arms = t["arms"]
        other = t["else"]
        if v[0] == "int":
            for val, tgt in arms:
                if val == v[1]:
                    return [(tgt, st)]
            return [(other, st)]
        if self.on_switch is not None:
            r = self.on_switch(self, st, v, t, b)
            if r is not None:
                return r
        if v[0] == "char":
            cid = v[1]
            rest = st.chars[cid]
            out = []
            for val, tgt in arms:
                s = ivl.inter(rest, ((val, val),))
                if s:
                    q = st.clone()
                    q.chars[cid] = s
                    out.append((tgt, q))
                    rest = ivl.minus(rest, s)
            if rest:
                q = st.clone()
                q.chars[cid] = rest
                out.append((other, q))
            return out
        cp = self.char_pred(st, v)
        if cp is not None and len(arms) == 1 and arms[0][0] in (0, 1):
            cid, s = cp
            cur = st.chars[cid]
            yes, no = ivl.inter(cur, s), ivl.minus(cur, s)
            val, tgt = arms[0]
            t_true, t_false = (other, tgt) if val == 0 else (tgt, other)
            out = []
            if yes:
                q = st.clone()
                q.chars[cid] = yes
                out.append((t_true, q))
            if no:
                q = st.clone()
                q.chars[cid] = no
                out.append((t_false, q))
            return out
        if v in st.facts:
            f = st.facts[v]
            for val, tgt in arms:
                if f == val:
                    return [(tgt, st)]
            if isinstance(f, tuple) or f not in [a for a, _ in arms]:
                return [(other, st)]
        out = []
        vals = tuple(a for a, _ in arms)
        for val, tgt in arms:
            q = st.clone()
            q.facts[v] = val
            out.append((tgt, q))
        q = st.clone()
        if len(vals) == 1 and vals[0] in (0, 1):
            q.facts[v] = 1 - vals[0]
        else:
            q.facts[v] = ("else", vals)
        out.append((other, q))
        return out

    def do_call(self, st, t, b, span):
        c = Call()
        f = t["f"]
        c.fnval = None
        if "fn" in f:
            c.decl = f["path"]
            c.full = t.get("res") or f["fn"]
            c.callee = norm_path(t.get("resp") or f["path"])
        else:
            fv = self.operand(st, f)
            c.fnval = fv
            if fv[0] == "fn":
                c.decl = fv[1]
                c.callee = norm_path(fv[1])
                c.full = fv[2]
            else:
                c.decl = c.callee = c.full = None
        c.args = [self.operand(st, a) for a in t["args"]]
        c.arg_ops = t["args"]
        c.dest = t["dest"]
        c.target = t["t"]
        c.site = b
        c.span = span
        c.from_expansion = t.get("exp", False)
        if self.models is not None:
            r = self.models(self, st, c)
            if r is not None:
                return r
        return self.default_call(st, c)

    def arg_is_mut_ref(self, op):
        pl = op.get("copy") or op.get("move")
        if pl is None or pl["p"]:
            return False
        return self.locals[pl["l"]].startswith("&mut")

    def inline(self, st, c, body, args=None):
        """Interpret a call by running the callee's body in a new frame on the same path.
        Returns the continuation list, or None if the callee cannot be summarised that way."""
        if self.depth >= 8:
            return None
        fid = st.data.get("nfr", 0) + 1
        st.data["nfr"] = fid
        sub = Engine(body, models=self.models, max_visits=self.max_visits,
                     on_switch=self.on_switch, frame=fid, depth=self.depth + 1)
        args = c.args if args is None else args
        if len(args) != sub.argc:
            return None
        for i, a in enumerate(args):
            sub.write(st, sub.lr(i + 1), (), a, quiet=True)
        st.events.append(("enter", body.get("path"), c.site))
        res = sub.run(0, st)
        self.steps += sub.steps
        conts = []
        nloc = len(sub.locals)
        nblk = len(sub.blocks)
        for q, end in res:
            for l in range(nloc):
                q.cells.pop(("fr", fid, l), None)
            for b in range(nblk):
                q.visits.pop((fid, b), None)
            if end[0] == "RETURN":
                q.events.append(("leave", body.get("path"), c.site))
                conts.append((q, end[1]))
            elif end[0] == "DIVERGE":
                continue
            else:
                q.events.append(("inline-failed", body.get("path"), end, c.site))
                conts.append((q, ("opaque", "inline-failed", body.get("path"))))
        return conts

    def default_call(self, st, c, pure=False):
        if not pure:
            st.events.append(("call", c.callee or c.fnval, tuple(c.args), c.site, c.span))
            for a, op in zip(c.args, c.arg_ops):
                if a[0] == "ref" and self.arg_is_mut_ref(op):
                    self.write(st, a[1], a[2], ("havoc", c.site, a[1], a[2]), (c.site, None),
                               quiet=True)
                    st.events.append(("havoc", a[1], a[2], c.callee or c.fnval, c.site))
        return [(st, ("call", c.callee or c.fnval, tuple(c.args), c.site))]


def fresh_char(st, key):
    """Introduce a character variable ranging over all scalar values."""
    st.chars[key] = ivl.FULL
    return ("char", key)
