"""Tables and table generator: R-MAP, R-DATA, R-ORACLE, R-GEN."""
import hashlib
import json
import os
import re
import subprocess

from . import cfg, facts, ivl
from .models import StdModels, NONE, some
from .segx import Engine, Path, norm_path, project

ORACLE = os.path.join(facts.VERIF, "tools", "oracle", "target", "release", "oracle")


def canon(name):
    return name.replace("_", "").lower()


def builtin_maps(prog):
    lex = prog.crate("lexgen")
    names = lex.statics.get("builtin::BUILTIN_RANGES")
    name_to_variant = {}
    if names and "hir_pairs" in names:
        for pair in names["hir_pairs"]:
            if "str" in pair[0] and "path" in pair[1]:
                name_to_variant[pair[0]["str"]] = pair[1]["path"].rsplit("::", 1)[-1]
    variant_to_table = {}
    gr = lex.body("builtin::BuiltinCharRange::get_ranges")
    adt = lex.adt("builtin::BuiltinCharRange")
    if gr is not None and adt is not None:
        blocks = gr["mir"]["blocks"]
        t = blocks[0]["term"]
        vnames = [v["name"] for v in adt["variants"]]
        if t["k"] == "switch":
            for val, tgt in t["arms"]:
                for st in blocks[tgt]["st"]:
                    o = (st.get("rv") or {}).get("o") or {}
                    if "static" in o and val < len(vnames):
                        variant_to_table[vnames[val]] = o["static"]
    return name_to_variant, variant_to_table, (adt or {}).get("variants", [])


def check_rmap(ctx, prog):
    lex = prog.crate("lexgen")
    n2v, v2t, variants = builtin_maps(prog)
    ctx.ob("R-MAP", "BUILTIN_RANGES lists 20 names", len(n2v) == 20, key="R-MAP:count:names",
           detail=sorted(n2v))
    ctx.ob("R-MAP", "get_ranges maps 20 variants to tables", len(v2t) == 20, key="R-MAP:count:variants",
           detail=sorted(v2t))
    ctx.ob("R-MAP", "BuiltinCharRange has 20 variants, all handled",
           len(variants) == 20 and {v["name"] for v in variants} == set(v2t), key="R-MAP:variants")
    for name, var in sorted(n2v.items()):
        ctx.ob("R-MAP", "$$%s -> variant %s (same name)" % (name, var), canon(name) == canon(var),
               key="R-MAP:name:%s" % name,
               detail="a built-in name bound to another class's variant accepts the wrong characters")
        tb = v2t.get(var)
        ctx.ob("R-MAP", "variant %s -> table %s (same name)" % (var, tb),
               tb is not None and canon(tb.rsplit("::", 1)[-1]) == canon(var),
               key="R-MAP:table:%s" % var)
    ctx.ob("R-MAP", "name -> variant is injective", len(set(n2v.values())) == len(n2v),
           key="R-MAP:inj:names")
    ctx.ob("R-MAP", "variant -> table is injective", len(set(v2t.values())) == len(v2t),
           key="R-MAP:inj:tables")
    # generator side
    gen = prog.crate("char_range_gen")
    fns = gen.statics.get("FNS")
    pairs = (fns or {}).get("hir_pairs") or []
    ctx.ob("R-MAP", "char_range_gen::FNS lists 20 (predicate, table name) pairs", len(pairs) == 20,
           key="R-MAP:count:fns")
    tables = {s.rsplit("::", 1)[-1] for s in lex.statics if s.startswith("char_ranges::")}
    seen = set()
    for p in pairs:
        pred = p[0].get("path", "?")
        tname = p[1].get("str", "?")
        seen.add(tname)
        short = pred.rsplit("::", 1)[-1]
        ctx.ob("R-MAP", "generator: predicate %s fills table %s (same name)" % (short, tname),
               short.startswith("is_") and canon(short[3:]) == canon(tname),
               key="R-MAP:fns:%s" % tname)
        if "is_ascii" not in short:
            ok = pred.startswith("std::char::methods::<impl char>::") or \
                pred.startswith("unicode_xid::UnicodeXID::")
            ctx.ob("R-MAP", "generator: %s is the std / unicode-xid predicate" % short, ok,
                   key="R-MAP:fns-src:%s" % tname, detail=pred)
        else:
            b = gen.body(short)
            ok = False
            if b is not None:
                calls = [c for _, c, t in cfg.calls_in(b["mir"]["blocks"])]
                ok = calls == ["std::char::methods::<impl char>::" + short]
            ctx.ob("R-MAP", "generator: wrapper %s calls char::%s" % (short, short), ok,
                   key="R-MAP:fns-src:%s" % tname)
    ctx.ob("R-MAP", "generator table names = tables in char_ranges.rs", seen == tables,
           key="R-MAP:fns-tables", detail={"only generator": sorted(seen - tables),
                                           "only char_ranges": sorted(tables - seen)})
    # README
    readme = os.path.join(facts.repo_path(), "README.md")
    try:
        with open(readme) as f:
            txt = f.read()
        doc = set(re.findall(r"\$\$(\w+)", txt))
        ctx.ob("R-MAP", "README documents exactly the built-in names", set(n2v) <= doc,
               key="R-MAP:readme", detail={"undocumented": sorted(set(n2v) - doc)})
    except OSError:
        ctx.ob("R-MAP", "README.md readable", False, key="R-MAP:readme:missing")
    ctx.sample({"R-MAP": {k: (v, v2t.get(v)) for k, v in sorted(n2v.items())[:4]}})


def table_pairs(static):
    u = static.get("u32s")
    if u is None:
        return None
    return [(u[i], u[i + 1]) for i in range(0, len(u), 2)]


def check_rdata(ctx, prog):
    lex = prog.crate("lexgen")
    n = 0
    for path, s in sorted(lex.statics.items()):
        if not path.startswith("char_ranges::"):
            continue
        n += 1
        pairs = table_pairs(s)
        ok = pairs is not None and len(pairs) > 0
        why = None
        if ok:
            m = re.match(r"\[\(u32, u32\); (\d+)\]", s["ty"])
            if not m or int(m.group(1)) != len(pairs):
                ok, why = False, "declared length differs"
            for i, (a, b) in enumerate(pairs):
                if a > b:
                    ok, why = False, "inverted range (%d, %d)" % (a, b)
                if i > 0 and pairs[i - 1][1] + 1 >= a:
                    ok, why = False, "ranges %r and %r overlap, touch or are unsorted" % (pairs[i - 1], (a, b))
            if not ivl.scalar_pairs_ok(pairs):
                ok, why = False, "an end point is not a scalar value"
        ctx.ob("R-DATA", "table %s is sorted, disjoint, non-adjacent, with scalar end points" % path,
               ok, key="R-DATA:%s" % path, where=s["span"], detail=why)
    ctx.floor("tables in char_ranges.rs", n, 20)


def oracle_tables():
    if not os.path.exists(ORACLE):
        subprocess.run(["cargo", "build", "--release", "--offline"],
                       cwd=os.path.join(facts.VERIF, "tools", "oracle"),
                       env=dict(os.environ, CARGO_NET_OFFLINE="true"), check=True,
                       stdout=subprocess.DEVNULL, stderr=subprocess.DEVNULL)
    cache = os.path.join(facts.WORK, "oracle.json")
    st = os.stat(ORACLE)
    if os.path.exists(cache) and os.path.getmtime(cache) >= st.st_mtime:
        with open(cache) as f:
            return json.load(f)
    r = subprocess.run([ORACLE], stdout=subprocess.PIPE, universal_newlines=True, check=True)
    os.makedirs(facts.WORK, exist_ok=True)
    with open(cache, "w") as f:
        f.write(r.stdout)
    return json.loads(r.stdout)


def check_roracle(ctx, prog):
    lex = prog.crate("lexgen")
    n2v, v2t, _ = builtin_maps(prog)
    ref = oracle_tables()
    n = 0
    for name in sorted(n2v):
        tb = v2t.get(n2v[name])
        s = lex.statics.get(tb) if tb else None
        pairs = table_pairs(s) if s else None
        if pairs is None or name not in ref:
            ctx.ob("R-ORACLE", "$$%s: table and reference available" % name, False,
                   key="R-ORACLE:%s:missing" % name)
            continue
        n += 1
        got = ivl.inter(ivl.norm(pairs), ivl.FULL)
        exp = ivl.norm([tuple(x) for x in ref[name]])
        d1 = ivl.minus(got, exp)
        d2 = ivl.minus(exp, got)
        nd = ivl.size(d1) + ivl.size(d2)
        h = hashlib.sha256(repr((d1, d2)).encode()).hexdigest()[:12]
        ctx.ob("R-ORACLE", "$$%s: table %s equals the Rust predicate at all 1,112,064 scalar values"
               % (name, tb), nd == 0, key="R-ORACLE:%s:%s" % (name, h), where=s["span"],
               detail={"code points differing": nd, "in table only": ivl.show(d1, 6),
                       "in predicate only": ivl.show(d2, 6)})
    ctx.floor("built-in tables compared with the toolchain's predicates", n, 20)
    ctx.sample({"R-ORACLE": "20 tables x 1,112,064 scalar values compared by interval arithmetic"})


# ------------------------------------------------------------------------------------ R-GEN
def leaf_syms(v, out=None, arith=None):
    """Collect symbolic leaves and whether arithmetic occurs in value v."""
    out = set() if out is None else out
    arith = [False] if arith is None else arith
    k = v[0]
    if k == "sym":
        out.add(v[1])
    elif k == "proj":
        base = v
        while base[0] == "proj":
            base = base[1]
        if base[0] == "sym":
            out.add(base[1])
        else:
            leaf_syms(base, out, arith)
    elif k in ("bin", "un", "ovf"):
        arith[0] = True
        for x in v[2:]:
            if isinstance(x, tuple):
                leaf_syms(x, out, arith)
    elif k in ("tuple", "array"):
        for x in v[1]:
            leaf_syms(x, out, arith)
    elif k == "adt":
        for _, x in v[4]:
            leaf_syms(x, out, arith)
    elif k == "cast":
        leaf_syms(v[2], out, arith)
    elif k in ("call", "pure"):
        arith[0] = True
    elif k == "int":
        out.add("const:%d" % v[1])
    return out, arith[0]


def check_rgen(ctx, prog):
    gen = prog.crate("char_range_gen")
    b = gen.body("generate_char_fn_ranges")
    if not ctx.ob("R-GEN", "generate_char_fn_ranges found", b is not None, key="R-GEN:anchor"):
        return
    blocks = b["mir"]["blocks"]
    names = b["mir"].get("names", {})
    loops, dom, preds = cfg.natural_loops(blocks)
    if not ctx.ob("R-GEN", "the generator has exactly one loop", len(loops) == 1, key="R-GEN:loop",
                  where=b["span"], detail=sorted(loops)):
        return
    head = list(loops)[0]
    members = loops[head]
    state_locals = [int(k) for k, v in names.items() if v.startswith("current_range")]
    state_locals = [l for l in state_locals if b["mir"]["locals"][l].startswith("std::option::Option<")]
    if not ctx.ob("R-GEN", "open-range state variable found (an Option local named current_range*)",
                  len(state_locals) >= 1, key="R-GEN:state", where=b["span"]):
        return
    S = min(state_locals)
    vec_locals = [int(k) for k, v in names.items() if v == "ranges"]
    # the loop runs over 0..=char::MAX ascending
    rng_ok = False
    for bi, callee, t in cfg.calls_in(blocks):
        if callee == "std::ops::RangeInclusive::new":
            a0 = t["args"][0]
            rng_ok = a0.get("int") == 0
    has_max = any("1114111" in json.dumps(bb["st"]) or "1114111" in json.dumps(bb["term"])
                  for bb in blocks)
    ctx.ob("R-GEN", "the loop is the single ascending range 0..=char::MAX", rng_ok and has_max,
           key="R-GEN:range", where=b["span"])

    X = ("sym", "open")
    I = ("sym", "i")

    def run(start_state, tryfrom, fres, from_exit=False):
        pushes = []

        def models(eng, st, c):
            n = c.callee or ""
            if re.search(r"Iterator( for [^>]*)?>::next$", n) or n == "std::iter::Iterator::next":
                return [(st, NONE if from_exit else some(I))]
            if "try_from" in n or n.endswith("char::from_u32"):
                if n.endswith("from_u32"):
                    return [(st, some(("sym", "c")) if tryfrom == "Ok" else NONE)]
                if tryfrom == "Ok":
                    return [(st, ("adt", "std::result::Result", "Ok", 0, (("0", ("sym", "c")),)))]
                return [(st, ("adt", "std::result::Result", "Err", 1, (("0", ("sym", "err")),)))]
            if c.callee is None and c.fnval == ("param", 1):
                st.events.append(("pred", tuple(c.args)))
                return [(st, ("int", int(bool(fres)), "bool"))]
            if n == "std::vec::Vec::push":
                st.events.append(("push", c.args[1]))
                return [(st, ("unit",))]
            if n == "std::option::Option::is_none":
                v = c.args[0]
                v = eng.read(st, v[1], v[2]) if v[0] == "ref" else v
                if v[0] == "adt":
                    return [(st, ("int", int(v[2] == "None"), "bool"))]
            if n == "std::option::Option::is_some":
                v = c.args[0]
                v = eng.read(st, v[1], v[2]) if v[0] == "ref" else v
                if v[0] == "adt":
                    return [(st, ("int", int(v[2] == "Some"), "bool"))]
            return None

        std = StdModels(extra=[models])
        eng = Engine(b, models=std, stop_blocks={head})
        st = Path()
        init = NONE if start_state == "closed" else some(X)
        eng.write(st, S, (), init, quiet=True)
        res = eng.run(head, st)
        outs = []
        for p, end in res:
            outs.append((end[0], [e[1] for e in p.events if e[0] == "push"],
                         eng.read(p, S, ()), [e for e in p.events if e[0] in ("call", "havoc")],
                         [e for e in p.events if e[0] == "pred"]))
        return outs, init

    def expect(name, outs, init, want_end, checker):
        ok = len(outs) == 1 and outs[0][0] == want_end
        detail = None
        if ok:
            end, pushes, state, unknown, preds = outs[0]
            # calls other than the modelled ones are tolerated only if they do not touch the state
            ok, detail = checker(pushes, state, init)
        else:
            detail = "paths: %r" % [(o[0], len(o[1])) for o in outs]
        ctx.ob("R-GEN", name, ok, key="R-GEN:" + name.split(":")[0], where=b["span"], detail=detail)

    def no_arith_from(v, allowed):
        syms, arith = leaf_syms(v)
        syms = {s for s in syms if not s.startswith("const:")}
        return (not arith) and syms <= allowed and bool(syms)

    # iteration table
    for s0 in ("closed", "open"):
        outs, init = run(s0, "Err", None)
        expect("skip-%s: a code point that is not a char changes nothing" % s0, outs, init, "STOP",
               lambda pushes, state, init: (not pushes and state == init, {"pushes": len(pushes)}))
    outs, init = run("closed", "Ok", True)
    expect("open: predicate true with no open range opens one at the current scalar value", outs, init,
           "STOP", lambda pushes, state, init: (
               not pushes and state[0] == "adt" and state[2] == "Some"
               and no_arith_from(state[4][0][1], {"i"}), repr(state)[:200]))
    outs, init = run("open", "Ok", True)

    def chk_extend(pushes, state, init):
        if pushes or state[0] != "adt" or state[2] != "Some":
            return False, repr(state)[:200]
        v = state[4][0][1]
        if v == X:
            return True, None          # start kept, nothing else tracked
        if v[0] == "tuple" and len(v[1]) == 2:
            return (v[1][0] == project(X, "0") and v[1][1] == I), repr(v)[:200]
        return False, repr(v)[:200]
    expect("extend: predicate true with an open range keeps its start (and records the current "
           "value as last)", outs, init, "STOP", chk_extend)
    outs, init = run("open", "Ok", False)
    expect("close: predicate false with an open range pushes exactly that range and closes it",
           outs, init, "STOP", lambda pushes, state, init: (
               len(pushes) == 1 and state == NONE and no_arith_from(pushes[0], {"open"}),
               {"pushed": [repr(p)[:200] for p in pushes], "state": repr(state)[:80],
                "meaning": "both end points must be values the loop variable had while the "
                           "predicate held (no `i - 1`: the previous code point may be a surrogate)"}))
    outs, init = run("closed", "Ok", False)
    expect("idle: predicate false with no open range does nothing", outs, init, "STOP",
           lambda pushes, state, init: (not pushes and state == NONE, None))
    # flush after the loop
    outs, init = run("open", None, None, from_exit=True)
    expect("flush-open: a range still open when the loop ends is pushed", outs, init, "RETURN",
           lambda pushes, state, init: (len(pushes) == 1 and no_arith_from(pushes[0], {"open"}),
                                        {"pushed": [repr(p)[:200] for p in pushes],
                                         "meaning": "a range reaching char::MAX is never closed by a "
                                                    "non-matching character"}))
    outs, init = run("closed", None, None, from_exit=True)
    expect("flush-closed: nothing is pushed after the loop when no range is open", outs, init,
           "RETURN", lambda pushes, state, init: (not pushes, None))
    ctx.sample({"R-GEN": "iteration table {closed,open} x {not a char, f true, f false} + flush, "
                         "state variable _%d" % S})
