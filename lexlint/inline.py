"""MIR-level inlining of helper functions, so that rules written against one function body keep seeing
the same calls when a maintainer extracts part of it into a helper (or passes a closure to a small
combinator such as `StateIdx::map`).

What is inlined: calls whose resolved callee is a function of the same crate that is NOT an anchor,
and direct calls of a closure whose creation (`closure def[captures]`) is visible in the caller.
Anchors are the functions the rules name (the pipeline's API as it exists on the reference tree,
`ANCHORS` below); everything else - in particular every function a refactoring introduces - is a
helper to be seen through. Recursive helpers and helpers beyond the depth / size bound stay calls.

The result is a body in the same JSON schema: callee locals and blocks are appended (renumbered), the
call block assigns the arguments to the callee's parameter locals and jumps to the callee's entry,
every `return` of the callee assigns the callee's `_0` to the call's destination and jumps to the
call's target. Blocks copied from a callee carry "inl": <callee path>.
"""
import copy

from .segx import norm_path

MAX_DEPTH = 4
MAX_BLOCKS = 6000
MAX_CALLEE_BLOCKS = 600

# functions of crate `lexgen` / `lexgen_util` on the reference tree that rules refer to by name, or
# that are entry points analysed on their own
ANCHOR_PREFIXES = (
    "dfa::codegen::ctx::CgCtx::", "dfa::codegen::search_table::SearchTableSet::",
    "right_ctx::RightCtxDFAs::", "right_ctx::RightCtxIdx::", "semantic_action_table::", "display::",
)
ANCHOR_EXACT = {
    # the NFA / DFA / range-map API as it exists on the reference tree (methods a refactoring adds,
    # e.g. private accessors, are helpers)
    "nfa::NFA::add_any_transition", "nfa::NFA::add_char_transition", "nfa::NFA::add_empty_transition",
    "nfa::NFA::add_end_of_input_transition", "nfa::NFA::add_range_transition", "nfa::NFA::add_range_transitions",
    "nfa::NFA::add_regex", "nfa::NFA::any_transitions", "nfa::NFA::char_transitions",
    "nfa::NFA::compute_state_closure", "nfa::NFA::end_of_input_transitions", "nfa::NFA::get_accepting_state",
    "nfa::NFA::initial_state", "nfa::NFA::make_state_accepting", "nfa::NFA::new", "nfa::NFA::new_state",
    "nfa::NFA::next_empty_states", "nfa::NFA::range_transitions", "nfa::State::new",
    "dfa::DFA::add_char_transition", "dfa::DFA::add_dfa", "dfa::DFA::from_states", "dfa::DFA::initial_state",
    "dfa::DFA::into_state_indices", "dfa::DFA::is_accepting_state", "dfa::DFA::make_state_accepting",
    "dfa::DFA::new", "dfa::DFA::new_state", "dfa::DFA::set_any_transition",
    "dfa::DFA::set_end_of_input_transition", "dfa::DFA::set_range_transitions", "dfa::DFA::get_predecessors",
    "dfa::State::has_no_transitions", "dfa::State::new",
    "range_map::Range::contains", "range_map::RangeMap::from_non_overlapping_sorted_ranges",
    "range_map::RangeMap::insert", "range_map::RangeMap::insert_ranges", "range_map::RangeMap::into_iter",
    "range_map::RangeMap::is_empty", "range_map::RangeMap::iter", "range_map::RangeMap::len",
    "range_map::RangeMap::map", "range_map::RangeMap::new", "range_map::RangeMap::remove_ranges",
    "lexer",
    "ast::parse_regex", "ast::parse_regex_0", "ast::parse_regex_1", "ast::parse_regex_2", "ast::parse_regex_3",
    "ast::parse_regex_4", "ast::parse_regex_ctx", "ast::parse_charset", "ast::parse_char_or_range",
    "ast::parse_rule", "ast::parse_rule_or_binding", "ast::make_lexer_parser",
    "dfa::codegen::generate", "dfa::codegen::generate_any_transition", "dfa::codegen::generate_rhs_code",
    "dfa::codegen::generate_right_ctx_fns", "dfa::codegen::generate_right_ctx_state_arm",
    "dfa::codegen::generate_right_ctx_state_arms", "dfa::codegen::generate_right_ctx_state_char_arms",
    "dfa::codegen::generate_semantic_action_call", "dfa::codegen::generate_semantic_action_fns",
    "dfa::codegen::generate_state", "dfa::codegen::generate_state_arms", "dfa::codegen::generate_state_char_arms",
    "dfa::codegen::generate_switch", "dfa::codegen::inclusive_range_contains", "dfa::codegen::right_ctx_fn_name",
    "dfa::codegen::test_right_ctxs", "dfa::simplify::simplify", "dfa::backtrack::update_backtracks",
    "regex_to_nfa::add_re", "regex_to_nfa::regex_to_range_map", "nfa_to_dfa::nfa_to_dfa",
    "builtin::BuiltinCharRange::get_ranges",
    # lexgen_util: the runtime's public contract (R-SUM's specification table)
    "Lexer::backtrack", "Lexer::match_", "Lexer::match_loc", "Lexer::new", "Lexer::new_from_iter",
    "Lexer::new_from_iter_with_state", "Lexer::new_with_state", "Lexer::next", "Lexer::peek",
    "Lexer::reset_accepting_state", "Lexer::reset_match", "Lexer::set_accepting_state", "Lexer::state",
    "SemanticActionResult::map_token",
}


def is_anchor(name):
    if name.startswith("<"):
        return True          # trait impls (derived or hand-written) are never helpers
    base = name.split("::{closure")[0]
    if base in ANCHOR_EXACT:
        return True
    return any(name.startswith(p) for p in ANCHOR_PREFIXES)


CLOSURE_CALLS = ("std::ops::Fn::call", "std::ops::FnMut::call_mut", "std::ops::FnOnce::call_once")


import re as _re


def _renumber(x, loff, boff, poff=0, lmap=None):
    """Deep copy of a JSON fragment with locals shifted by loff (block targets are handled by the
    caller, on terminators only) and references to promoted constants shifted by poff."""
    if isinstance(x, dict):
        if poff and isinstance(x.get("const"), str) and "promoted[" in x["const"]:
            y = dict(x)
            y["const"] = _re.sub(r"promoted\[(\d+)\]$", lambda m: "promoted[%d]" % (int(m.group(1)) + poff),
                                 x["const"])
            return y
        if "l" in x and "p" in x and isinstance(x["l"], int):
            nl = lmap[x["l"]] if (lmap and x["l"] in lmap) else x["l"] + loff
            return {"l": nl, "p": [_renumber(e, loff, boff, poff, lmap) for e in x["p"]]}
        if set(x.keys()) == {"idx"}:
            return {"idx": (lmap[x["idx"]] if (lmap and x["idx"] in lmap) else x["idx"] + loff)}
        return {k: _renumber(v, loff, boff, poff, lmap) for k, v in x.items()}
    if isinstance(x, list):
        return [_renumber(e, loff, boff, poff, lmap) for e in x]
    return x


def _shift_term(t, boff):
    k = t["k"]
    if k in ("goto", "call", "drop", "assert"):
        if t.get("t") is not None and t["t"] >= 0:
            t["t"] = t["t"] + boff
    elif k == "switch":
        t["arms"] = [[v, tg + boff] for v, tg in t["arms"]]
        t["else"] = t["else"] + boff
    return t


def _reborrow_origin(blocks, bb, local):
    """x if `local` is a temporary `&mut *x` / `&*x` taken in the calling block for the call (a plain
    reborrow of another local reference, the usual shape of `self.helper()`), else `local`."""
    for _ in range(3):
        found = None
        for st in bb["st"]:
            if "lhs" in st and st["lhs"]["l"] == local and not st["lhs"]["p"] and st["rv"]["k"] == "ref":
                p = st["rv"]["p"]
                if p["p"] == ["*"]:
                    found = p["l"]
        if found is None:
            return local
        local = found
    return local


def _closure_origin(blocks, local, depth=6):
    """(def path, captured operand list) if `local` is (a reference to / a copy of) a closure created
    in this body by a single `closure def[...]` statement."""
    for _ in range(depth):
        defs = []
        for bb in blocks:
            if bb["cleanup"]:
                continue
            for st in bb["st"]:
                if "lhs" in st and st["lhs"]["l"] == local and not st["lhs"]["p"]:
                    defs.append(st["rv"])
            t = bb["term"]
            if t["k"] == "call" and t["dest"]["l"] == local and not t["dest"]["p"]:
                defs.append(None)
        if len(defs) != 1 or defs[0] is None:
            return None
        rv = defs[0]
        if rv["k"] == "agg" and rv["kind"].get("agg") == "closure":
            return rv["kind"]["def"]
        pl = None
        if rv["k"] == "use":
            pl = rv["o"].get("copy") or rv["o"].get("move")
        elif rv["k"] == "ref":
            pl = rv["p"]
        if pl is None or any(e != "*" for e in pl["p"]):
            return None
        local = pl["l"]
    return None


def _prefix_paths(x, prefix, roots):
    """Callee blocks copied from another crate name that crate's own items by crate-relative paths; in
    the caller's crate the same items carry the crate name in front."""
    KEYS = ("f", "adt", "fn", "path", "res", "resp", "def")

    def fix(sv):
        if not isinstance(sv, str) or not sv:
            return sv
        head = sv.lstrip("<&").split("::", 1)[0].split("<", 1)[0].split(".", 1)[0]
        if head in roots and not sv.startswith(prefix):
            if sv.startswith("<"):
                return "<" + prefix + sv[1:]
            return prefix + sv
        return sv
    if isinstance(x, dict):
        return {k: (fix(v) if (k in KEYS and isinstance(v, str)) else _prefix_paths(v, prefix, roots))
                for k, v in x.items()}
    if isinstance(x, list):
        return [_prefix_paths(e, prefix, roots) for e in x]
    return x


def inline_body(crate, body, max_depth=MAX_DEPTH, anchor_pred=None, resolver=None, max_blocks=None):
    """Returns (new body, [names of inlined callees]). `resolver(callee name)` may supply a callee body
    from elsewhere: it returns None or (body, path prefix, set of crate-local root names to prefix)."""
    mir = body["mir"]
    out = copy.deepcopy(body)
    m = out["mir"]
    blocks = m["blocks"]
    for bb in blocks:
        bb.setdefault("depth", 0)
        bb.setdefault("stack", ())
    self_name = norm_path(body["path"])
    inlined = []
    budget = max_blocks or MAX_BLOCKS
    bi = -1
    while True:
        bi += 1
        if bi >= len(blocks) or len(blocks) >= budget:
            break
        if True:
            bb = blocks[bi]
            if bb["cleanup"]:
                continue
            t = bb["term"]
            if t["k"] != "call" or bb["depth"] >= max_depth:
                continue
            cname = norm_path(t.get("resp") or t["f"].get("path")) or ""
            callee = None
            closure = False
            if cname in CLOSURE_CALLS and t["args"]:
                q = t["args"][0].get("move") or t["args"][0].get("copy")
                if q is not None and not q["p"]:
                    d = _closure_origin(blocks, q["l"])
                    if d is not None:
                        callee = crate.raw_body(norm_path(d))
                        closure = True
            elif cname and "::{closure" in cname and crate.raw_body(cname) is not None:
                # a direct call of a local closure, already resolved to the closure's body
                callee = crate.raw_body(cname)
                closure = True
            elif cname and not (anchor_pred or is_anchor)(cname):
                callee = crate.raw_body(cname)
            foreign = None
            if callee is None and resolver is not None and cname:
                r = resolver(cname)
                if r is not None:
                    callee, fprefix, froots = r
                    foreign = (fprefix, froots)
            if callee is None:
                continue
            cn = norm_path(callee["path"])
            if cn == self_name or cn in bb["stack"]:
                continue
            cm = callee["mir"]
            if len(cm["blocks"]) > (MAX_CALLEE_BLOCKS if max_blocks is None else max_blocks):
                continue
            loff = len(m["locals"])
            boff = len(blocks)
            m["locals"].extend(cm["locals"])
            for k, v in cm.get("names", {}).items():
                m.setdefault("names", {})[str(int(k) + loff)] = v
            # argument passing
            new_st = []
            lmap = {}
            if closure:
                new_st.append({"lhs": {"l": 1 + loff, "p": []}, "rv": {"k": "use", "o": t["args"][0]}, "ln": 0})
                if len(t["args"]) > 1:
                    tp = t["args"][1].get("move") or t["args"][1].get("copy")
                    for j in range(2, cm["argc"] + 1):
                        if tp is not None:
                            o = {"copy": {"l": tp["l"], "p": list(tp["p"]) + [{"f": "tuple.%d" % (j - 2), "i": j - 2}]}}
                        else:
                            o = t["args"][1]
                        new_st.append({"lhs": {"l": j + loff, "p": []}, "rv": {"k": "use", "o": o}, "ln": 0})
            else:
                # a parameter that receives a plain local and is never reassigned in the callee is the
                # caller's local itself (no copy): `self.helper()` then sees the same `self`
                assigned = set()
                for cb in cm["blocks"]:
                    for st_ in cb["st"]:
                        if "lhs" in st_ and not st_["lhs"]["p"]:
                            assigned.add(st_["lhs"]["l"])
                    tt = cb["term"]
                    if tt["k"] == "call" and not tt["dest"]["p"]:
                        assigned.add(tt["dest"]["l"])
                for j, a in enumerate(t["args"]):
                    q = a.get("move") or a.get("copy")
                    if q is not None and not q["p"] and (j + 1) not in assigned:
                        lmap[j + 1] = _reborrow_origin(blocks, bb, q["l"])
                    else:
                        new_st.append({"lhs": {"l": j + 1 + loff, "p": []}, "rv": {"k": "use", "o": a}, "ln": 0})
            dest = t["dest"]
            target = t.get("t")
            poff = len(out.get("promoted") or [])
            if callee.get("promoted"):
                out.setdefault("promoted", [])
                out["promoted"] = list(out["promoted"]) + list(callee["promoted"])
            for cb in cm["blocks"]:
                nb = _renumber(cb, loff, boff, poff, lmap)
                if foreign is not None:
                    nb = _prefix_paths(nb, foreign[0], foreign[1])
                nb["term"] = _shift_term(nb["term"], boff)
                nb["depth"] = bb["depth"] + 1
                nb["stack"] = bb["stack"] + (cn,)
                nb["inl"] = (foreign[0] + cn) if foreign is not None else cn
                if nb["term"]["k"] == "return":
                    nb["st"].append({"lhs": dest, "rv": {"k": "use", "o": {"move": {"l": loff, "p": []}}}, "ln": 0})
                    if target is not None and target >= 0:
                        nb["term"] = {"k": "goto", "t": target}
                    else:
                        nb["term"] = {"k": "unreachable"}
                blocks.append(nb)
            bb["st"] = bb["st"] + new_st
            bb["term"] = {"k": "goto", "t": boff, "inlined_call": cn}
            inlined.append(cn)
    out["inlined"] = inlined
    return out, inlined
