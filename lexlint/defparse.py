"""Parser for `lexer! { ... }` invocations in Rust source files, following the grammar documented in
lexgen's README (written independently of lexgen's own parser). Produces rx.Def values so that the
repository's own lexers can be compared with their reference automata (tv) and their rule kinds
with the generated wrappers (R-SUGAR)."""
import re

from .rx import Def, Rule


class ParseError(Exception):
    pass


def unescape(body, quote):
    out = []
    i = 0
    n = len(body)
    while i < n:
        c = body[i]
        if c != "\\":
            out.append(c)
            i += 1
            continue
        i += 1
        e = body[i]
        if e == "n":
            out.append("\n")
        elif e == "t":
            out.append("\t")
        elif e == "r":
            out.append("\r")
        elif e == "0":
            out.append("\0")
        elif e in "\\'\"":
            out.append(e)
        elif e == "x":
            out.append(chr(int(body[i + 1:i + 3], 16)))
            i += 2
        elif e == "u":
            j = body.index("}", i)
            out.append(chr(int(body[i + 2:j].replace("_", ""), 16)))
            i = j
        elif e == "\n":
            # line continuation: skip following whitespace
            i += 1
            while i < n and body[i] in " \t\n\r":
                i += 1
            continue
        else:
            raise ParseError("unknown escape \\%s" % e)
        i += 1
    return "".join(out)


TOK_PUNCT = ["=>", "->", "::", "..=", "..", "&&", "||", "==", "!=", "<=", ">=", "+=", "-=", "*=", "/=",
             "<<", ">>"]


def tokenize(src, start=0, end=None):
    """Rust-ish tokens: (kind, text, value, pos). kinds: char str ident punct lifetime num"""
    toks = []
    i = start
    n = len(src) if end is None else end
    while i < n:
        c = src[i]
        if c in " \t\r\n":
            i += 1
            continue
        if src.startswith("//", i):
            j = src.find("\n", i)
            i = n if j < 0 else j
            continue
        if src.startswith("/*", i):
            depth = 1
            i += 2
            while i < n and depth:
                if src.startswith("/*", i):
                    depth += 1
                    i += 2
                elif src.startswith("*/", i):
                    depth -= 1
                    i += 2
                else:
                    i += 1
            continue
        if c == '"':
            j = i + 1
            while src[j] != '"':
                j += 2 if src[j] == "\\" else 1
            toks.append(("str", src[i:j + 1], unescape(src[i + 1:j], '"'), i))
            i = j + 1
            continue
        if c == "r" and re.match(r'r#*"', src[i:i + 8]):
            m = re.match(r'r(#*)"', src[i:])
            close = '"' + m.group(1)
            j = src.index(close, i + len(m.group(0)))
            toks.append(("str", src[i:j + len(close)], src[i + len(m.group(0)):j], i))
            i = j + len(close)
            continue
        if c == "'":
            # char literal or lifetime
            if src[i + 1] == "\\":
                j = i + 2
                if src[j] == "u":
                    j = src.index("}", j)
                elif src[j] == "x":
                    j += 2
                j += 1
                if src[j] != "'":
                    raise ParseError("bad char literal at %d" % i)
                toks.append(("char", src[i:j + 1], unescape(src[i + 1:j], "'"), i))
                i = j + 1
                continue
            if i + 2 < n and src[i + 2] == "'":
                toks.append(("char", src[i:i + 3], src[i + 1], i))
                i += 3
                continue
            m = re.match(r"'[A-Za-z_][A-Za-z0-9_]*", src[i:])
            if m:
                toks.append(("lifetime", m.group(0), None, i))
                i += len(m.group(0))
                continue
            raise ParseError("stray quote at %d" % i)
        m = re.match(r"[A-Za-z_][A-Za-z0-9_]*", src[i:])
        if m:
            toks.append(("ident", m.group(0), None, i))
            i += len(m.group(0))
            continue
        m = re.match(r"[0-9][0-9A-Za-z_]*(\.[0-9][0-9A-Za-z_]*)?", src[i:])
        if m:
            toks.append(("num", m.group(0), None, i))
            i += len(m.group(0))
            continue
        for p in TOK_PUNCT:
            if src.startswith(p, i):
                toks.append(("punct", p, None, i))
                i += len(p)
                break
        else:
            toks.append(("punct", c, None, i))
            i += 1
    return toks


OPEN = {"(": ")", "[": "]", "{": "}"}


class P(object):
    def __init__(self, toks, src):
        self.t = toks
        self.i = 0
        self.src = src

    def peek(self, k=0):
        return self.t[self.i + k] if self.i + k < len(self.t) else ("eof", "", None, -1)

    def at(self, text, k=0):
        tk = self.peek(k)
        return tk[0] in ("punct", "ident") and tk[1] == text

    def next(self):
        tk = self.peek()
        self.i += 1
        return tk

    def expect(self, text):
        tk = self.next()
        if tk[1] != text:
            raise ParseError("expected %r, found %r at %d" % (text, tk[1], tk[3]))
        return tk

    def skip_balanced_until(self, stops):
        """Skip tokens until one of `stops` at nesting depth 0; returns source text skipped."""
        depth = []
        start = self.peek()[3]
        while True:
            tk = self.peek()
            if tk[0] == "eof":
                raise ParseError("unexpected end")
            if tk[0] == "punct" and not depth and tk[1] in stops:
                return self.src[start:tk[3]]
            if tk[0] == "punct" and tk[1] in OPEN:
                depth.append(OPEN[tk[1]])
            elif tk[0] == "punct" and depth and tk[1] == depth[-1]:
                depth.pop()
            elif tk[0] == "punct" and tk[1] == "<" and False:
                pass
            self.i += 1

    # ---- regex grammar (README): | lowest, then concatenation, then postfix, then #
    def regex(self):
        r = self.re1()
        while self.at("|"):
            self.next()
            r = ("alt", r, self.re1())
        return r

    def starts_atom(self):
        tk = self.peek()
        return tk[0] in ("char", "str") or (tk[0] == "punct" and tk[1] in ("(", "[", "$")) or \
            (tk[0] == "ident" and tk[1] == "_")

    def re1(self):
        r = self.re2()
        while self.starts_atom():
            r = ("cat", r, self.re2())
        return r

    def re2(self):
        r = self.re3()
        while True:
            if self.at("*"):
                self.next()
                r = ("star", r)
            elif self.at("+"):
                self.next()
                r = ("plus", r)
            elif self.at("?"):
                self.next()
                r = ("opt", r)
            else:
                return r

    def re3(self):
        r = self.re4()
        while self.at("#"):
            self.next()
            r = ("diff", r, self.re4())
        return r

    def re4(self):
        tk = self.next()
        if tk[0] == "char":
            return ("chr", tk[2])
        if tk[0] == "str":
            return ("str", tk[2])
        if tk[0] == "ident" and tk[1] == "_":
            return ("any",)
        if tk[1] == "(":
            r = self.regex()
            self.expect(")")
            return r
        if tk[1] == "[":
            items = []
            while not self.at("]"):
                a = self.next()
                if a[0] != "char":
                    raise ParseError("expected char in set at %d" % a[3])
                if self.at("-"):
                    self.next()
                    b = self.next()
                    items.append((a[2], b[2]))
                else:
                    items.append(a[2])
            self.expect("]")
            return ("set", tuple(items))
        if tk[1] == "$":
            if self.at("$"):
                self.next()
                return ("builtin", self.next()[1])
            if self.peek()[0] == "ident" and self.peek()[1] != "_":
                return ("var", self.next()[1])
            return ("eoi",)
        raise ParseError("unexpected %r in regex at %d" % (tk[1], tk[3]))

    def rule_or_binding(self):
        if self.at("let"):
            self.next()
            name = self.next()[1]
            self.expect("=")
            r = self.regex()
            self.expect(";")
            return ("let", name, r)
        r = self.regex()
        ctx = None
        if self.at(">"):
            self.next()
            ctx = self.regex()
        if self.at(","):
            self.next()
            return Rule(r, ctx, "skip")
        if self.at("=>"):
            self.next()
            rhs = self.skip_balanced_until({","})
            self.expect(",")
            return Rule(r, ctx, "infallible", rhs.strip())
        if self.at("="):
            self.next()
            kind = "simple"
            if self.at("?"):
                self.next()
                kind = "fallible"
            rhs = self.skip_balanced_until({","})
            self.expect(",")
            return Rule(r, ctx, kind, rhs.strip())
        raise ParseError("expected rule terminator at %d" % self.peek()[3])


def parse_lexer_body(src, start, end):
    toks = tokenize(src, start, end)
    p = P(toks, src)
    attrs = []
    while p.at("#") and p.at("[", 1):
        s0 = p.peek()[3]
        p.next()
        p.next()
        p.skip_balanced_until({"]"})
        p.expect("]")
        attrs.append(src[s0:p.peek()[3]].strip())
    vis = ""
    if p.at("pub"):
        p.next()
        vis = "pub"
        if p.at("("):
            p.next()
            p.skip_balanced_until({")"})
            p.expect(")")
    name = p.next()[1]
    state = None
    if p.at("("):
        p.next()
        state = p.skip_balanced_until({")"}).strip()
        p.expect(")")
    p.expect("->")
    token = p.skip_balanced_until({";"}).strip()
    p.expect(";")
    top = []
    sets = None
    err = None
    while p.peek()[0] != "eof":
        if p.at("type"):
            p.next()
            p.next()
            p.expect("=")
            err = p.skip_balanced_until({";"}).strip()
            p.expect(";")
        elif p.at("rule") and p.peek(1)[0] == "ident" and p.at("{", 2):
            p.next()
            rname = p.next()[1]
            p.expect("{")
            items = []
            while not p.at("}"):
                items.append(p.rule_or_binding())
            p.expect("}")
            if p.at(","):
                p.next()
            if sets is None:
                sets = []
            sets.append((rname, items))
        else:
            top.append(p.rule_or_binding())
    return Def(name=name, top=top, sets=sets, token=token, error_type=err, state_type=state,
               attrs=attrs, vis=vis)


def find_lexers(path):
    """[(line, col, Def or ParseError)] for every `lexer! { .. }` in the file."""
    with open(path) as f:
        src = f.read()
    out = []
    for m in re.finditer(r"\blexer!\s*\{", src):
        # skip occurrences inside comments
        ls = src.rfind("\n", 0, m.start()) + 1
        if "//" in src[ls:m.start()]:
            continue
        start = m.end()
        # find the matching brace using the tokenizer (strings/chars aware)
        depth = 1
        end = None
        for tk in tokenize(src, start):
            if tk[0] == "punct" and tk[1] == "{":
                depth += 1
            elif tk[0] == "punct" and tk[1] == "}":
                depth -= 1
                if depth == 0:
                    end = tk[3]
                    break
        line = src.count("\n", 0, m.start()) + 1
        col = m.start() - ls + 1
        try:
            d = parse_lexer_body(src, start, end)
        except (ParseError, IndexError, ValueError) as e:
            d = ParseError("%s:%d: %s" % (path, line, e))
        out.append((line, col, d))
    return out
