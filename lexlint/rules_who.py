"""R-WHO (who may read/write which Lexer field), R-PANIC on generated code, R-CTOR delegation of the
generated constructors, R-SUGAR (action wrappers and handle methods)."""
import re

from .lts import SELF, LX, lx, EL, RT
from .models import StdModels, NONE, pure
from .rules_runtime import PANIC_CALLEES, LEXER_FIELDS, E as RE
from .segx import Engine, Path, norm_path, project, UNIT

SAR = "lexgen_util::SemanticActionResult"

FIELD_RE = re.compile(r"^(?:lexgen_util::)?Lexer::Lexer\.(\w+)$")


def place_fields(pl):
    """Lexer fields projected by a place (normally at most one)."""
    out = []
    for e in pl["p"]:
        if isinstance(e, dict) and "f" in e:
            m = FIELD_RE.match(e["f"])
            if m:
                out.append(m.group(1))
    return out


CTOR_RE = re.compile(r"(^|::)Lexer::(new|new_with_state|new_from_iter|new_from_iter_with_state)$")


def fresh_lexer_locals(body):
    """Locals that hold a Lexer value returned by a constructor call in this very body (a temporary under
    construction, e.g. the base of `Self { input, ..Lexer::new_from_iter_with_state(..) }`): taking
    it apart is not an access to an existing lexer."""
    out = set()
    for bb in body["mir"]["blocks"]:
        t = bb["term"]
        if t["k"] == "call" and not t["dest"]["p"]:
            c = norm_path(t.get("resp") or t["f"].get("path")) or ""
            if CTOR_RE.search(c):
                out.add(t["dest"]["l"])
    return out


def accesses(body, skip_inlined_from=None):
    """(field, mode, span) for every syntactic access of a Lexer field in non-cleanup code.
    modes: write | mutborrow | read | move | drop"""
    out = []
    fresh = fresh_lexer_locals(body)

    def place_fields(pl, _pf=globals()["place_fields"]):     # shadows the module-level helper on purpose
        if pl["l"] in fresh and pl["p"] and pl["p"][0] != "*":
            return []
        return _pf(pl)

    def op(o, span):
        pl = o.get("copy")
        if pl is not None:
            for f in place_fields(pl):
                out.append((f, "read", span))
        pl = o.get("move")
        if pl is not None:
            for f in place_fields(pl):
                out.append((f, "move", span))

    for bb in body["mir"]["blocks"]:
        if bb["cleanup"]:
            continue
        if skip_inlined_from and str(bb.get("inl", "")).startswith(skip_inlined_from):
            continue        # code inlined from the runtime is judged by the runtime's own table
        span = bb.get("span")
        for st in bb["st"]:
            if "lhs" not in st:
                continue
            for f in place_fields(st["lhs"]):
                out.append((f, "write", "%s (line %s)" % (span, st.get("ln"))))
            rv = st["rv"]
            k = rv["k"]
            if k == "use" or k == "cast":
                op(rv["o"], span)
            elif k in ("ref", "rawptr"):
                for f in place_fields(rv["p"]):
                    out.append((f, "mutborrow" if rv.get("mut") or k == "rawptr" else "read", span))
            elif k == "discr":
                for f in place_fields(rv["p"]):
                    out.append((f, "read", span))
            elif k == "bin":
                op(rv["a"], span)
                op(rv["b"], span)
            elif k == "un":
                op(rv["a"], span)
            elif k == "agg":
                for o in rv["ops"]:
                    op(o, span)
        t = bb["term"]
        if t["k"] == "call":
            for a in t["args"]:
                op(a, span)
            for f in place_fields(t["dest"]):
                out.append((f, "write", span))
        elif t["k"] == "drop":
            for f in place_fields(t["p"]):
                out.append((f, "drop", span))
        elif t["k"] == "switch":
            op(t["d"], span)
        elif t["k"] == "assert":
            op(t["c"], span)
    return out


CT = ("new_with_state", "new_from_iter_with_state")
# field -> function -> allowed modes, in lexgen_util
WHO_RUNTIME = {
    "__state": {"backtrack": {"write"}},
    "__done": {"backtrack": {"write"}},
    "__initial_state": {"backtrack": {"write"}},
    "user_state": {"state": {"mutborrow"}},
    "input": {"match_": {"read"}},
    "iter_loc": {"backtrack": {"write"}},
    "__iter": {"next": {"mutborrow"}, "peek": {"mutborrow"}, "backtrack": {"write", "drop"},
               "set_accepting_state": {"read"}},
    "current_match_start": {"reset_match": {"write"}, "backtrack": {"write", "read"},
                            "set_accepting_state": {"read"}, "match_": {"read"},
                            "match_loc": {"read"}},
    "current_match_end": {"next": {"write", "read"}, "backtrack": {"write"},
                          "set_accepting_state": {"read"}, "reset_match": {"read"},
                          "match_": {"read"}, "match_loc": {"read"}},
    "last_match": {"set_accepting_state": {"write", "drop"},
                   "reset_accepting_state": {"write", "drop"}, "backtrack": {"mutborrow"}},
}
# in generated code
WHO_GENERATED = {
    "next": {"__done": {"read", "write"}, "__state": {"read", "write"},
             "__initial_state": {"read", "write"}, "__iter": {"read"}},
    "switch": {"__state": {"read", "write"}, "__initial_state": {"write"}},
}


SPEC_METHODS = ("backtrack", "match_", "match_loc", "next", "peek", "reset_accepting_state", "reset_match",
                "set_accepting_state", "state")


def allowed_mode(mode, allowed):
    """A method that may write a field may also hand out `&mut field` to a helper (the helper's own
    accesses are attributed to the method separately); nothing else is implied."""
    return mode in allowed or (mode == "mutborrow" and "write" in allowed)


def check_who_runtime(ctx, prog):
    from .rules_runtime import helper_roots
    util = prog.crate("lexgen_util")
    counts = {}
    helpers = helper_roots(util)
    for b in util.bodies:
        name = norm_path(b["path"])
        short = name.split("::")[-1]
        acc = accesses(b)
        if not acc:
            continue
        derived = b["from_expansion"]
        is_method = name.startswith("Lexer::")
        if name in helpers:
            # a private helper acts on behalf of the specified methods that call it: each access
            # must be allowed for every one of them
            for f, mode, span in acc:
                counts[f] = counts.get(f, 0) + 1
                for root in sorted(helpers[name]):
                    rshort = root.split("::")[-1]
                    ok = rshort not in CT and allowed_mode(mode, WHO_RUNTIME.get(f, {}).get(rshort, ()))
                    ctx.ob("R-WHO", "lexgen_util::%s (helper of %s) may %s field %s" % (
                        name, root, mode, f), ok,
                        key="R-WHO:lexgen_util::%s:%s:%s" % (root, f, mode), where=span,
                        detail="allowed accessors of `%s`: %s" % (
                            f, {k: sorted(v) for k, v in WHO_RUNTIME.get(f, {}).items()}))
            continue
        for f, mode, span in acc:
            counts[f] = counts.get(f, 0) + 1
            if derived:
                ok = mode == "read"
                why = "derived impls only read fields"
            elif is_method and short in CT:
                ok = False      # constructors build the struct with an aggregate, no field access
                why = "constructors do not access fields of an existing lexer"
            elif is_method and short not in SPEC_METHODS and short not in CT + ("new", "new_from_iter"):
                # a method outside the specification table: template code that was moved from the
                # generated `next` into the runtime (generated code that calls it is analysed with it
                # inlined); it may touch what the generated `next` may touch
                ok = mode == "read" or mode in WHO_GENERATED["next"].get(f, ())
                why = "a runtime method without a contract may only do what the generated next() may do: %s" % (
                    {k: sorted(v) for k, v in WHO_GENERATED["next"].items()},)
            else:
                ok = is_method and allowed_mode(mode, WHO_RUNTIME.get(f, {}).get(short, ()))
                why = "allowed accessors of `%s`: %s" % (
                    f, {k: sorted(v) for k, v in WHO_RUNTIME.get(f, {}).items()})
            ctx.ob("R-WHO", "lexgen_util::%s may %s field %s" % (name, mode, f), ok,
                   key="R-WHO:lexgen_util::%s:%s:%s" % (name, f, mode), where=span, detail=why)
    # constructors are the only functions that build a Lexer value
    for b in util.bodies:
        name = norm_path(b["path"])
        short = name.split("::")[-1]
        for bb in b["mir"]["blocks"]:
            for st in bb["st"]:
                rv = st.get("rv")
                if rv and rv["k"] == "agg" and rv["kind"].get("agg") == "adt" and \
                        rv["kind"]["adt"] in ("Lexer", "lexgen_util::Lexer"):
                    ctor_helper = name in helpers and helpers[name] and all(
                        r.split("::")[-1] in CT + ("new", "new_from_iter") for r in helpers[name])
                    ok = (name.startswith("Lexer::") and short in CT) or ctor_helper or \
                        (b["from_expansion"] and "Clone" in name)
                    ctx.ob("R-WHO", "lexgen_util::%s may construct a Lexer value" % name, ok,
                           key="R-WHO:lexgen_util::%s:construct" % name, where=bb.get("span"))
    for f in LEXER_FIELDS:
        ctx.count("who_runtime_accesses_" + f, counts.get(f, 0))
    return counts


def check_who_generated(ctx, prog, exp):
    n = 0
    for p, b in exp.bodies.items():
        acc = accesses(b, skip_inlined_from="lexgen_util::")
        if not acc:
            continue
        if b is exp.next_body:
            role = "next"
        elif p == exp.struct + "::switch":
            role = "switch"
        else:
            role = None
        for f, mode, span in acc:
            n += 1
            ok = role is not None and mode in WHO_GENERATED[role].get(f, ())
            ctx.ob("R-WHO", "%s: generated %s may %s field %s" % (exp.id, p.rsplit("::", 1)[-1], mode, f),
                   ok, key="R-WHO:%s:%s:%s:%s" % (exp.id, p.rsplit("::", 1)[-1], f, mode),
                   where=exp.span,
                   detail="generated code touches lexer fields only in next() (%s) and switch() (%s)"
                          % (WHO_GENERATED["next"], WHO_GENERATED["switch"]))
    ctx.count("who_generated_accesses", n)
    return n


def check_panic_generated(ctx, prog, exp):
    """Template code (terminators whose span comes from the expansion) must not contain a
    may-panic construct. User expressions spliced into wrappers keep their own spans and are not
    template code."""
    n = 0
    for p, b in exp.bodies.items():
        for bb in b["mir"]["blocks"]:
            if bb["cleanup"]:
                continue
            t = bb["term"]
            n += 1
            if not bb.get("texp", True):
                continue
            key = None
            if t["k"] == "assert":
                key = "assert:" + t["kind"]
            elif t["k"] == "call":
                name = norm_path(t.get("resp") or t["f"].get("path"))
                if name and PANIC_CALLEES.search(name):
                    key = "call:" + name
                elif t["t"] < 0:
                    key = "diverges:" + str(name)
            if key:
                ctx.ob("R-PANIC", "%s: generated %s contains may-panic construct %s" % (
                    exp.id, p.rsplit("::", 1)[-1], key), False,
                    key="R-PANIC:%s:%s:%s" % (exp.id, p.rsplit("::", 1)[-1], key), where=exp.span)
    ctx.ob("R-PANIC", "%s: no may-panic construct in template code (%d terminators)" % (exp.id, n),
           True)
    ctx.count("generated_terminators_scanned", n)


CTOR_ARGS = {"new": 1, "new_with_state": 2, "new_from_iter": 1, "new_from_iter_with_state": 2}


def check_ctor_delegation(ctx, prog, exp):
    for m, argc in CTOR_ARGS.items():
        b = exp.body(m)
        if not ctx.ob("R-CTOR", "%s: generated constructor %s found" % (exp.id, m), b is not None,
                      key="R-CTOR:%s:%s:anchor" % (exp.id, m), where=exp.span):
            continue
        eng = Engine(b, models=None)
        res = eng.run(0, Path())
        ok = False
        detail = None
        if len(res) == 1 and res[0][1][0] == "RETURN":
            st, end = res[0]
            calls = [e for e in st.events if e[0] == "call"]
            r = end[1]
            if len(calls) == 1:
                c = calls[0]
                ok = (c[1] == RT + m and c[2] == tuple(("param", i + 1) for i in range(argc))
                      and r[0] == "adt" and len(r[4]) == 1
                      and r[4][0][1] == ("call", c[1], c[2], c[3]))
            elif len(calls) == 2 and m in ("new", "new_from_iter"):
                # `new(x)` spelled `new_with_state(x, Default::default())`: what the runtime's own `new`
                # does (R-SUM's constructor rows)
                d = [c for c in calls if str(c[1]).endswith("Default>::default") or str(c[1]).endswith("::default")]
                w = [c for c in calls if c[1] == RT + m + "_with_state"]
                if len(d) == 1 and len(w) == 1 and not d[0][2]:
                    c = w[0]
                    ok = (len(c[2]) == 2 and c[2][0] == ("param", 1)
                          and c[2][1] == ("call", d[0][1], d[0][2], d[0][3])
                          and r[0] == "adt" and len(r[4]) == 1
                          and r[4][0][1] == ("call", c[1], c[2], c[3]))
            detail = {"calls": [str(c[1]) for c in calls], "ret": repr(r)[:200]}
        ctx.ob("R-CTOR", "%s: %s only wraps lexgen_util::Lexer::%s applied to its own arguments" % (
            exp.id, m, m), ok, key="R-CTOR:%s:%s" % (exp.id, m), where=exp.span, detail=detail)


HANDLE_DELEGATES = {"state": 1, "reset_match": 1, "match_": 1, "match_loc": 1, "peek": 1}


def check_handles(ctx, prog, exp):
    """Generated handle methods delegate one-to-one to the runtime method of the same name."""
    for m in HANDLE_DELEGATES:
        b = exp.body(m)
        if not ctx.ob("R-SUGAR", "%s: handle method %s found" % (exp.id, m), b is not None,
                      key="R-SUGAR:%s:handle:%s:anchor" % (exp.id, m), where=exp.span):
            continue
        eng = Engine(b, models=None)
        res = eng.run(0, Path())
        ok = False
        if len(res) == 1 and res[0][1][0] == "RETURN":
            st, end = res[0]
            calls = [e for e in st.events if e[0] == "call"]
            if len(calls) == 1:
                c = calls[0]
                ok = (c[1] == RT + m and c[2] == (("ref", SELF, LX),)
                      and end[1] == ("call", c[1], c[2], c[3]))
        ctx.ob("R-SUGAR", "%s: handle method %s is exactly `self.0.%s()`" % (exp.id, m, m), ok,
               key="R-SUGAR:%s:handle:%s" % (exp.id, m), where=exp.span)
    for m, variant, payload in (("return_", "Return", ("param", 2)), ("continue_", "Continue", None)):
        b = exp.body(m)
        if b is None:
            ctx.ob("R-SUGAR", "%s: handle method %s found" % (exp.id, m), False,
                   key="R-SUGAR:%s:handle:%s:anchor" % (exp.id, m), where=exp.span)
            continue
        eng = Engine(b, models=None)
        res = eng.run(0, Path())
        ok = False
        if len(res) == 1 and res[0][1][0] == "RETURN":
            st, end = res[0]
            r = end[1]
            evs = [e for e in st.events if e[0] in ("call", "write", "havoc")]
            ok = (not evs and r[0] == "adt" and r[1].endswith("SemanticActionResult") and r[2] == variant
                  and (payload is None or r[4][0][1] == payload))
        ctx.ob("R-SUGAR", "%s: %s builds SemanticActionResult::%s and has no effect" % (exp.id, m, variant),
               ok, key="R-SUGAR:%s:handle:%s" % (exp.id, m), where=exp.span)


def wrapper_shape(prog, exp, body):
    """Summarise a generated `L_ACTION_k` wrapper. Returns (shape, detail) where shape is one of
    skip | simple | infallible | fallible | None."""
    handle = {exp.struct + "::" + m for m in
              ("match_loc", "reset_match", "match_", "peek", "state", "return_", "continue_",
               "switch", "switch_and_return")}

    def inline_ok(callee, b):
        if callee.startswith("lexgen_util::") or callee.startswith("Lexer::") or \
                callee.startswith("SemanticActionResult::"):
            return True
        if callee in handle:
            return True
        # closures created by the template (not the user's)
        return b["from_expansion"] and b["span"] == exp.span

    user_calls = []

    def user_model(eng, st, c):
        # a call whose callee is a user closure / function value, or any callee outside the template
        if c.callee is None and c.fnval is not None:
            fv = c.fnval
            if fv[0] == "closure":
                b, _ = prog.find_body(norm_path(fv[1]), exp.crate)
                if b is not None and b["from_expansion"] and b["span"] == exp.span:
                    return None
            user_calls.append((fv, tuple(c.args)))
            st.events.append(("user", fv, tuple(c.args), c.site))
            return [(st, ("userres", len(user_calls)))]
        if c.callee is not None and tuple(c.args) == (("param", 1),):
            # a user function used as the action (`re => my_fn`)
            b, _ = prog.find_body(c.callee, exp.crate)
            is_template = b is not None and b["from_expansion"] and b["span"] == exp.span
            if not is_template and not inline_ok(c.callee, b or {"from_expansion": False, "span": None}):
                user_calls.append((c.callee, tuple(c.args)))
                st.events.append(("user", c.callee, tuple(c.args), c.site))
                return [(st, ("userres", len(user_calls)))]
        return None

    models = StdModels(program=prog, home=exp.crate, extra=[user_model], inline_ok=inline_ok)
    eng = Engine(body, models=models)
    res = eng.run(0, Path())
    paths = []
    for st, end in res:
        if end[0] != "RETURN":
            return None, "path ends in %r" % (end,)
        writes = {e[2]: e[3] for e in st.events if e[0] == "write" and e[1] == SELF}
        users = [e for e in st.events if e[0] == "user"]
        unknown = [e for e in st.events if e[0] in ("call", "havoc", "inline-failed")]
        paths.append((st, end[1], writes, users, unknown))
    if not paths:
        return None, "no path"
    # skip: reset_match(); Continue
    if len(paths) == 1:
        st, r, writes, users, unknown = paths[0]
        if not users and not unknown and r[0] == "adt" and r[1].endswith("SemanticActionResult") and r[2] == "Continue" \
                and set(writes) == {lx("current_match_start")} \
                and writes[lx("current_match_start")] == EL("current_match_end"):
            return "skip", None
        if not users and not writes and r[0] == "adt" and r[1].endswith("SemanticActionResult") and r[2] == "Return":
            inner = r[4][0][1]
            if inner[0] == "adt" and inner[2] == "Ok":
                return "simple", None
        if len(users) == 1 and not writes and not unknown and r == ("userres", 1) \
                and users[0][2] == (("param", 1),):
            return "fallible", None
    if len(paths) == 2 and all(len(p[3]) == 1 and not p[2] and not p[4] for p in paths):
        u = ("userres", 1)
        got = {}
        for st, r, writes, users, unknown in paths:
            d = st.facts.get(("discr", u))
            if users[0][2] != (("param", 1),):
                return None, "user action is not called with the lexer"
            got[d] = r
        c, rt = got.get(0), got.get(1)
        if c is not None and rt is not None and c[0] == "adt" and c[2] == "Continue" \
                and rt[0] == "adt" and rt[2] == "Return":
            inner = rt[4][0][1]
            if inner[0] == "adt" and inner[2] == "Ok" and \
                    inner[4][0][1] == project(project(u, "@Return"), "0"):
                return "infallible", None
    return None, [(repr(p[1])[:200], {k[-1]: repr(v)[:80] for k, v in p[2].items()},
                   len(p[3]), [str(e[1]) for e in p[4]]) for p in paths]


def check_sugar(ctx, prog, exp, expected=None):
    """Every generated action wrapper has one of the four documented shapes; with `expected`
    (index -> kind, from a witness definition) the shape must be the declared one."""
    shapes = {}
    for k, b in sorted(exp.actions().items()):
        shape, detail = wrapper_shape(prog, exp, b)
        shapes[k] = shape
        ctx.ob("R-SUGAR", "%s: action wrapper %d has a documented shape (%s)" % (exp.id, k, shape),
               shape is not None, key="R-SUGAR:%s:wrapper:%d" % (exp.id, k), where=exp.span,
               detail=detail)
        if expected is not None and k in expected:
            ctx.ob("R-SUGAR", "%s: rule %d written as `%s` compiles to the %s wrapper" % (
                exp.id, k, expected[k], expected[k]), shape == expected[k],
                key="R-SUGAR:%s:kind:%d" % (exp.id, k), where=exp.span, detail={"found": shape})
    ctx.count("action_wrappers", len(shapes))
    return shapes
