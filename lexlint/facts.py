"""Fact base: builds (once per source-tree state) and loads the JSON facts written by mirdump.

Every check calls `repo_facts()` first. The key of a fact base is a hash of every source file that
the build reads, so an edited /repo always gets a fresh analysis; nothing is reused across
different tree states. Cargo's own freshness cache is defeated by deleting the workspace members'
fingerprints before each build and by asserting afterwards that every expected fact file exists.
"""
import fcntl
import glob
import hashlib
import json
import os
import shutil
import subprocess
import sys
import time

VERIF = os.path.dirname(os.path.dirname(os.path.abspath(__file__)))
WORK = os.path.join(VERIF, ".work")
MIRDUMP = os.path.join(VERIF, "tools", "mirdump", "target", "release", "mirdump")
MEMBERS = ("lexgen", "lexgen_util", "char_range_gen", "lexgen_lalrpop_example")

# crate name -> minimum number of fact files expected (lib + test builds)
EXPECTED = {
    "lexgen": 2, "lexgen_util": 1, "char_range_gen": 1,
    "tests": 1, "bugs": 1, "right_ctx": 1, "lua_5_1": 1, "lexgen_lalrpop_example": 1,
}


def repo_path():
    return os.path.abspath(os.environ.get("VERIF_REPO", "/repo"))


def _sysroot():
    out = subprocess.run(["rustc", "+nightly", "--print", "sysroot"], stdout=subprocess.PIPE,
                         universal_newlines=True, check=True)
    return out.stdout.strip()


_ENV_CACHE = {}


def tool_env(extra=None):
    if "env" not in _ENV_CACHE:
        env = dict(os.environ)
        sysroot = _sysroot()
        env["LD_LIBRARY_PATH"] = os.path.join(sysroot, "lib") + (
            ":" + env["LD_LIBRARY_PATH"] if env.get("LD_LIBRARY_PATH") else "")
        env["CARGO_NET_OFFLINE"] = "true"
        env.pop("RUSTC_WRAPPER", None)
        _ENV_CACHE["env"] = env
        _ENV_CACHE["sysroot"] = sysroot
    env = dict(_ENV_CACHE["env"])
    if extra:
        env.update(extra)
    return env


def sysroot():
    tool_env()
    return _ENV_CACHE["sysroot"]


def _hash_files(h, root, rel_paths):
    for rel in sorted(rel_paths):
        p = os.path.join(root, rel)
        h.update(rel.encode())
        h.update(b"\0")
        try:
            with open(p, "rb") as f:
                h.update(f.read())
        except OSError:
            h.update(b"<missing>")
        h.update(b"\0")


def source_files(repo):
    rels = []
    for top in ("Cargo.toml", "Cargo.lock"):
        rels.append(top)
    for dirpath, dirnames, filenames in os.walk(os.path.join(repo, "crates")):
        dirnames[:] = [d for d in dirnames if d not in ("target", ".git")]
        for fn in filenames:
            rels.append(os.path.relpath(os.path.join(dirpath, fn), repo))
    return rels


def tree_key(repo):
    h = hashlib.sha256()
    h.update(repo.encode())
    _hash_files(h, repo, source_files(repo))
    _hash_files(h, VERIF, ["tools/mirdump/src/main.rs", "lexlint/facts.py"])
    return h.hexdigest()[:20]


class Lock(object):
    def __init__(self, name):
        d = os.path.join(WORK, "locks")
        os.makedirs(d, exist_ok=True)
        self.path = os.path.join(d, name)

    def __enter__(self):
        self.f = open(self.path, "w")
        fcntl.flock(self.f, fcntl.LOCK_EX)
        return self

    def __exit__(self, *a):
        fcntl.flock(self.f, fcntl.LOCK_UN)
        self.f.close()


def ensure_mirdump():
    if not os.path.exists(MIRDUMP):
        subprocess.run(["cargo", "build", "--release", "--offline"],
                       cwd=os.path.join(VERIF, "tools", "mirdump"), env=tool_env(), check=True,
                       stdout=subprocess.DEVNULL, stderr=subprocess.DEVNULL)
    if not os.path.exists(MIRDUMP):
        raise RuntimeError("mirdump driver is not built: run ./setup.sh")


def _prune(parent, keep):
    try:
        ds = sorted((os.path.getmtime(os.path.join(parent, d)), d) for d in os.listdir(parent))
    except OSError:
        return
    now = time.time()
    for mt, d in ds[:-keep] if len(ds) > keep else []:
        if now - mt > 6 * 3600:
            shutil.rmtree(os.path.join(parent, d), ignore_errors=True)
    for f in glob.glob(os.path.join(WORK, "locks", "*.lock")):
        try:
            if now - os.path.getmtime(f) > 24 * 3600:
                os.remove(f)
        except OSError:
            pass


def target_dir():
    """One cargo target directory per analysed checkout path: cargo names the artifacts of
    workspace members independently of the checkout's location, so two checkouts sharing a target
    directory would overwrite each other's proc-macro."""
    rp = repo_path()
    if rp == "/repo":
        return os.path.join(WORK, "target-repo")
    return os.path.join(WORK, "target-" + hashlib.sha256(rp.encode()).hexdigest()[:10])


def run_group(cmd, cwd, env, timeout):
    """subprocess.run in its own process group; on timeout the whole group (cargo, rustc, the driver,
    a proc macro that loops) is killed before TimeoutExpired is re-raised."""
    import signal
    p = subprocess.Popen(cmd, cwd=cwd, env=env, stdout=subprocess.PIPE, stderr=subprocess.PIPE,
                         universal_newlines=True, start_new_session=True)
    try:
        out, err = p.communicate(timeout=timeout)
    except subprocess.TimeoutExpired:
        try:
            os.killpg(p.pid, signal.SIGKILL)
        except OSError:
            pass
        p.communicate()
        raise
    return subprocess.CompletedProcess(cmd, p.returncode, out, err)


def prune_fact_bases(keep, but=None):
    """Fact bases (and the per-tree-state witness expansions and analysis caches below them) describe
    one state of the source tree each and are only ever reused for exactly that state: all but the
    `keep` most recently used ones are deleted before a new one is built, so that checking many states
    of the tree one after the other does not fill the disk (a state's base is 0.1-1 GB)."""
    root = os.path.join(WORK, "facts")
    try:
        ds = [d for d in os.listdir(root) if os.path.isdir(os.path.join(root, d)) and d != but]
    except OSError:
        return
    ds.sort(key=lambda d: os.path.getmtime(os.path.join(root, d)), reverse=True)
    for d in ds[max(0, keep - 1):]:
        shutil.rmtree(os.path.join(root, d), ignore_errors=True)


def repo_facts(log=None):
    """Directory with the fact files of /repo's current working tree (built if necessary)."""
    repo = repo_path()
    ensure_mirdump()
    key = tree_key(repo)
    with Lock("facts-%s.lock" % key):
        out = os.path.join(WORK, "facts", key, "repo")
        stamp = os.path.join(out, "COMPLETE")
        if os.path.exists(stamp):
            try:
                os.utime(os.path.join(WORK, "facts", key), None)     # most recently used
            except OSError:
                pass
            return out
        prune_fact_bases(keep=int(os.environ.get("VERIF_KEEP_FACT_BASES", "40")), but=key)
        shutil.rmtree(out, ignore_errors=True)
        os.makedirs(out)
        tdir = target_dir()
        for m in MEMBERS:
            for fp in glob.glob(os.path.join(tdir, "debug", ".fingerprint", m + "-*")):
                shutil.rmtree(fp, ignore_errors=True)
        env = tool_env({
            "RUSTFLAGS": "-Zmir-opt-level=0 -Awarnings",
            "RUSTC_WORKSPACE_WRAPPER": MIRDUMP,
            "MIRDUMP_OUT": out,
            "CARGO_TARGET_DIR": tdir,
        })
        env.pop("MIRDUMP_STOP", None)
        env.pop("MIRDUMP_NAME", None)
        t0 = time.time()
        cmd = ["cargo", "+nightly", "check", "--offline", "-p", "lexgen", "-p", "lexgen_util",
               "-p", "char_range_gen", "-p", "lexgen_lalrpop_example", "--lib", "--bins", "--tests",
               "--message-format=json"]
        try:
            r = run_group(cmd, cwd=repo, env=env, timeout=1500)
            arts = {}
            human = [r.stderr]
            for line in r.stdout.splitlines():
                if not line.startswith("{"):
                    continue
                try:
                    m = json.loads(line)
                except ValueError:
                    continue
                if m.get("reason") == "compiler-artifact":
                    nm = m["target"]["name"]
                    for fn in m.get("filenames", []):
                        if nm == "lexgen" and fn.endswith(".so"):
                            arts["lexgen_so"] = fn
                        if nm == "lexgen_util" and fn.endswith(".rmeta") and \
                                not m.get("profile", {}).get("test"):
                            arts["lexgen_util_rmeta"] = fn
                elif m.get("reason") == "compiler-message":
                    human.append(m.get("message", {}).get("rendered") or "")
            r.stdout = "\n".join(human)
        except subprocess.TimeoutExpired:
            raise BuildFailure("building /repo with the analysis driver did not finish in 1500 s "
                               "(macro expansion of one of the repository's own lexers hangs?)", "")
        if r.returncode != 0:
            raise BuildFailure("cargo check of %s with the analysis driver failed" % repo, r.stdout)
        names = {}
        for f in glob.glob(os.path.join(out, "*.json")):
            n = os.path.basename(f).rsplit("-", 2 if f.endswith("-test.json") else 1)[0]
            names[n] = names.get(n, 0) + 1
        missing = [n for n, c in EXPECTED.items() if names.get(n, 0) < c]
        if missing:
            raise BuildFailure("fact files missing for crates %s (wrapper skipped?)" % missing,
                               r.stdout)
        if "lexgen_so" not in arts or "lexgen_util_rmeta" not in arts:
            raise BuildFailure("proc-macro / runtime artifacts not reported by cargo", r.stdout)
        # keep private copies: the target directory's files are overwritten by the next build of a
        # different tree state, this fact base must keep describing *this* state
        for k in ("lexgen_so", "lexgen_util_rmeta"):
            dst = os.path.join(out, os.path.basename(arts[k]))
            shutil.copy2(arts[k], dst)
            arts[k] = dst
        arts["deps"] = os.path.join(tdir, "debug", "deps")
        with open(os.path.join(out, "ARTIFACTS"), "w") as f:
            json.dump(arts, f)
        with open(os.path.join(out, "REPO_PATH"), "w") as f:
            f.write(repo)
        with open(stamp, "w") as f:
            f.write("%.1f\n" % (time.time() - t0))
        _prune(os.path.join(WORK, "facts"), 12)
        return out


class BuildFailure(Exception):
    def __init__(self, msg, log):
        Exception.__init__(self, msg)
        self.log = log


_LOADED = {}


def load(path):
    if path not in _LOADED:
        with open(path) as f:
            _LOADED[path] = json.load(f)
    return _LOADED[path]


def crate_files(fdir, crate, test=None):
    """Fact files of one crate. test=True: only test builds; False: only non-test builds."""
    res = []
    for f in sorted(glob.glob(os.path.join(fdir, crate + "-*.json"))):
        base = os.path.basename(f)
        stem = base[:-5]
        is_test = stem.endswith("-test")
        if is_test:
            stem = stem[:-5]
        if stem.rsplit("-", 1)[0] != crate:
            continue
        if test is None or test == is_test:
            res.append(f)
    return res


def load_crate(fdir, crate, test=False):
    fs = crate_files(fdir, crate, test)
    if not fs:
        raise BuildFailure("no fact file for crate %s (test=%s) in %s" % (crate, test, fdir), "")
    return load(fs[0])


def body_by_path(crate, path):
    for b in crate["bodies"]:
        if b["path"] == path:
            return b
    return None


def bodies_matching(crate, pred):
    return [b for b in crate["bodies"] if pred(b)]


if __name__ == "__main__":
    t0 = time.time()
    try:
        d = repo_facts()
    except BuildFailure as e:
        print(e, file=sys.stderr)
        print(e.log[-3000:], file=sys.stderr)
        sys.exit(2)
    print(d, "%.1fs" % (time.time() - t0))
    for f in sorted(os.listdir(d)):
        print("  ", f, os.path.getsize(os.path.join(d, f)))
