"""Entry point: `./lexlint check <Cxx> [--tier quick|thorough]`."""
import argparse
import os
import sys
import time
import traceback

from . import facts, analysis, rules_runtime as rr, rules_who as rw
from .program import Program
from .report import Ctx

# floors: numbers counted on the reference tree (see DESIGN.md section 6)
FLOOR_REPO_TV = 55
FLOOR_REPO_EXPANSIONS = 55


class Env(object):
    """Lazily computed shared inputs of one check run."""

    def __init__(self, tier, seed):
        self.tier = tier
        self.seed = seed
        self._fdir = None
        self._prog = None
        self._rsum = None
        self._gen = None

    @property
    def fdir(self):
        if self._fdir is None:
            self._fdir = facts.repo_facts()
        return self._fdir

    @property
    def prog(self):
        if self._prog is None:
            self._prog = Program(self.fdir)
        return self._prog

    def runtime(self, ctx, rules):
        """Run the runtime rules named in `rules` into ctx."""
        full = Ctx("tmp")
        rsum = rr.check_rsum(full, self.prog)
        rr.check_rpair(full, self.prog, rsum)
        rr.check_rpanic_runtime(full, self.prog, rsum)
        rr.check_rtypes(full, self.prog)
        rr.check_rctor(full, self.prog, rsum)
        rw.check_who_runtime(full, self.prog)
        # replay selected
        byrule = {}
        for v in full.violations:
            byrule.setdefault(v["rule"], []).append(v)
        for rule, desc, ok in full.obligations:
            if rule in rules:
                if ok:
                    ctx.obligations.append((rule, desc, ok))
        for v in full.violations:
            if v["rule"] in rules:
                ctx.obligations.append((v["rule"], v["message"], False))
                ctx.violation(v["rule"], v["key"], v["message"], v["where"], v["detail"])
        for k, v in full.counts.items():
            ctx.count(k, v)
        return rsum

    def _replay_ctx(self, ctx, full, rules):
        for rule, desc, ok in full.obligations:
            if ok and (rule in rules or rule == "FLOOR"):
                ctx.obligations.append((rule, desc, ok))
        for v in full.violations:
            if v["rule"] in rules or v["rule"] == "FLOOR":
                ctx.obligations.append((v["rule"], v["message"], False))
                ctx.violation(v["rule"], v["key"], v["message"], v["where"], v["detail"])
        for k, v in full.counts.items():
            ctx.count(k, v)
        for smp in full.samples:
            ctx.sample(smp, limit=16)
        ctx.floors.extend(full.floors)

    def src(self, ctx, rules):
        """Rules on the macro's own source."""
        from . import rules_src as rs
        from . import rules_thompson as rth
        fns = {"R-THOMPSON": rth.check_rthompson, "R-CLASS": rth.check_rclassdispatch,
               "R-PRIM": rth.check_rprim, "R-SUBSET": rth.check_rsubset, "R-PROV": rth.check_rprov,
               "R-WL": rs.check_rwl, "R-EXH": rs.check_rexh, "R-DET": rs.check_rdet,
               "R-PARSE": rs.check_rparse, "R-SCOPE": rs.check_rscope, "R-CHK": rs.check_rchk,
               "R-FLOW": rs.check_rflow, "R-ORDER": rs.check_rorder, "R-OFFSET": rth.check_roffset,
               "R-SHIFT": rth.check_rshift, "R-INLINE": rs.check_rinline}
        for r in rules:
            full = Ctx("tmp")
            fns[r](full, self.prog)
            self._replay_ctx(ctx, full, {r})

    def tables(self, ctx, rules):
        from . import rules_tables as rt
        fns = {"R-MAP": rt.check_rmap, "R-DATA": rt.check_rdata, "R-ORACLE": rt.check_roracle,
               "R-GEN": rt.check_rgen}
        for r in rules:
            full = Ctx("tmp")
            fns[r](full, self.prog)
            self._replay_ctx(ctx, full, {r})

    def gen(self):
        if self._gen is None:
            self._gen = analysis.repo_gen_results(self.fdir)
        return self._gen

    def replay_gen(self, ctx, rules):
        res = self.gen()
        n = analysis.replay(ctx, res, rules)
        ctx.floor("lexer! expansions in the repository's test crates", len(res),
                  FLOOR_REPO_EXPANSIONS)
        for r in res[:3]:
            ctx.sample({"expansion": r.id, "where": r.span, **{k: v for k, v in r.stats.items()
                                                               if k in ("states", "reads", "segments", "kinds")}})
        tot = {}
        for r in res:
            for k, v in r.stats.get("kinds", {}).items():
                tot[k] = tot.get(k, 0) + v
            for k in ("states", "reads", "segments"):
                tot[k] = tot.get(k, 0) + (r.stats.get(k) or 0)
        ctx.counts["lts_totals_repo"] = tot
        if "TV" in rules:
            ctx.floor("repository lexers whose definition was read back from the test source and "
                      "translation-validated", sum(1 for r in res if "tv_pairs" in r.stats), FLOOR_REPO_TV)
            ctx.count("programs", sum(1 for r in res if "tv_pairs" in r.stats))
            ctx.count("tv_related_pairs", sum(r.stats.get("tv_pairs", 0) for r in res))
            ctx.count("disagreements_checked", sum(r.stats.get("tv_comparisons", 0) for r in res))
        for r in res:
            for note in r.notes:
                if note not in ctx.notes:
                    ctx.notes.append(note)
        return res


    def witnesses(self, ctx, families, rules, floors=None):
        """Compile + analyse the witness families and replay the obligations of `rules`."""
        from . import witgen, wit
        total = 0
        for fam in families:
            ws = witgen.family(fam, self.tier, self.seed)
            res = wit.run_witnesses(self.fdir, ws, "%s-%s" % (fam, self.tier))
            n_prog = sum(r.programs for r in res)
            pairs = sum(r.pairs for r in res)
            cmps = sum(r.comparisons for r in res)
            for r in res:
                for rule, desc, ok, key, where, detail in r.obligations:
                    if rule in rules or rule == "ENGINE":
                        ctx.ob(rule, desc, ok, key=key, where=where, detail=detail)
                for note in r.notes:
                    if note not in ctx.notes and len(ctx.notes) < 40:
                        ctx.notes.append(note)
            ctx.count("witnesses_" + fam, len(ws))
            ctx.count("programs", n_prog)
            ctx.count("tv_related_pairs", pairs)
            ctx.count("disagreements_checked", cmps)
            total += len(ws)
            if floors and fam in floors:
                ctx.floor("witnesses in family " + fam, len(ws), floors[fam])
            for w, r in list(zip(ws, res))[:2]:
                if w.d is not None:
                    ctx.sample({"witness": w.name, "family": fam, "definition": w.d.render(),
                                "related_pairs": r.pairs, "comparisons": r.comparisons})
                else:
                    ctx.sample({"witness": w.name, "family": fam, "expect": w.expect, "note": w.note})
        return total


def explanation(prop):
    from . import props
    return props.PROPS[prop]["explanation"]


def run_check(prop, tier, seed):
    from . import props
    if prop not in props.PROPS:
        print("unknown property %s" % prop, file=sys.stderr)
        return 2
    spec = props.PROPS[prop]
    ctx = Ctx(prop, tier, seed)
    env = Env(tier, seed)
    try:
        spec["run"](ctx, env)
    except facts.BuildFailure as e:
        ctx.ob("BUILD", "the analysed tree builds under the analysis driver", False,
               key="BUILD:" + str(e)[:80], detail=(e.log or "")[-3000:])
    except Exception:
        ctx.ob("ENGINE", "the check ran to completion", False, key="ENGINE:crash",
               detail=traceback.format_exc()[-3000:])
    cov = {
        "explanation": spec["explanation"],
        "rule": spec.get("rule", "every instance of every rule listed in obligations_by_rule is "
                                 "one obligation; instances are enumerated from the type-checked "
                                 "program, never sampled"),
        "checker_cmd": "./lexlint check %s --tier %s" % (prop, tier),
        "trusted_base": spec.get("trusted_base", []) + [
            "rustc nightly (type checking, MIR construction, trait resolution) via tools/mirdump",
            "lexlint's abstract interpreter segx and its call models (lexlint/models.py)"],
        "exhaustive": True,
    }
    if spec["level"] == "translation_validation":
        cov["programs"] = ctx.counts.get("programs", 0)
        cov["disagreements_checked"] = ctx.counts.get("disagreements_checked", 0)
    n_ob = len(ctx.obligations)
    cov["evaluations"] = max(n_ob, 1)
    cov["distinct_nontrivial"] = max(len({(o[0], o[1]) for o in ctx.obligations}), 2)
    return ctx.finish(spec["level"], cov, spec.get("assumptions", []))


def main(argv=None):
    ap = argparse.ArgumentParser(prog="lexlint")
    sub = ap.add_subparsers(dest="cmd")
    c = sub.add_parser("check")
    c.add_argument("prop")
    c.add_argument("--tier", default=os.environ.get("VERIF_TIER", "quick"))
    e = sub.add_parser("explain")
    e.add_argument("path")
    sub.add_parser("facts")
    a = ap.parse_args(argv)
    if a.cmd == "check":
        seed = int(os.environ.get("VERIF_SEED", "0") or 0)
        tier = a.tier if a.tier in ("quick", "thorough") else "quick"
        if a.prop == "all":
            from . import props
            rc = 0
            for p in sorted(props.PROPS):
                rc |= run_check(p, tier, seed)
            return rc
        return run_check(a.prop, tier, seed)
    if a.cmd == "explain":
        import json
        with open(a.path) as f:
            v = json.load(f)
        print("property : %s" % v.get("property"))
        print("rule     : %s" % v.get("rule"))
        print("instance : %s" % v.get("key"))
        print("what     : %s" % v.get("message"))
        print("where    : %s" % v.get("where"))
        print("detail   : %s" % json.dumps(v.get("detail"), indent=1))
        return 0
    if a.cmd == "facts":
        print(facts.repo_facts())
        return 0
    ap.print_help()
    return 2


if __name__ == "__main__":
    sys.exit(main())
