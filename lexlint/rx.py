"""Regex syntax trees for witness definitions, and their printing in `lexer!` syntax.

Trees (tuples):
  ('chr', c) ('str', s) ('set', (item,...)) item = c | (lo, hi)   ('any',) ('eoi',)
  ('star', r) ('plus', r) ('opt', r) ('cat', r1, r2) ('alt', r1, r2) ('diff', r1, r2)
  ('var', name) ('builtin', name)
"""

BUILTINS = ["alphabetic", "alphanumeric", "ascii", "ascii_alphabetic", "ascii_alphanumeric",
            "ascii_control", "ascii_digit", "ascii_graphic", "ascii_hexdigit", "ascii_lowercase",
            "ascii_punctuation", "ascii_uppercase", "ascii_whitespace", "control", "lowercase",
            "numeric", "uppercase", "whitespace", "XID_Start", "XID_Continue"]


def chr_(c):
    return ("chr", c)


def lit_char(c):
    o = ord(c)
    if c == "'":
        return "'\\''"
    if c == "\\":
        return "'\\\\'"
    if c == "\n":
        return "'\\n'"
    if c == "\t":
        return "'\\t'"
    if 32 <= o < 127:
        return "'%s'" % c
    return "'\\u{%x}'" % o


def lit_str(s):
    out = []
    for c in s:
        o = ord(c)
        if c == '"':
            out.append('\\"')
        elif c == "\\":
            out.append("\\\\")
        elif c == "\n":
            out.append("\\n")
        elif 32 <= o < 127:
            out.append(c)
        else:
            out.append("\\u{%x}" % o)
    return '"%s"' % "".join(out)


# precedence levels of the documented grammar: 0 alt, 1 cat, 2 postfix, 3 diff, 4 atom
def level(r):
    k = r[0]
    if k == "alt":
        return 0
    if k == "cat":
        return 1
    if k in ("star", "plus", "opt"):
        return 2
    if k == "diff":
        return 3
    return 4


def show(r, minimal=False):
    """Print r. minimal=False: every compound sub-expression parenthesised; minimal=True: only
    the parentheses the documented precedence and left-associativity require."""
    k = r[0]
    if k == "chr":
        return lit_char(r[1])
    if k == "str":
        return lit_str(r[1])
    if k == "set":
        parts = []
        for it in r[1]:
            if isinstance(it, tuple):
                parts.append("%s-%s" % (lit_char(it[0]), lit_char(it[1])))
            else:
                parts.append(lit_char(it))
        return "[" + " ".join(parts) + "]"
    if k == "any":
        return "_"
    if k == "eoi":
        return "$"
    if k == "var":
        return "$" + r[1]
    if k == "builtin":
        return "$$" + r[1]

    def sub(x, need, right=False):
        s = show(x, minimal)
        lv = level(x)
        if lv == 4:
            return s
        if not minimal:
            return "(" + s + ")"
        # left-associative binary operators: right operand of the same level needs parentheses
        if lv < need or (right and lv == need):
            return "(" + s + ")"
        return s

    if k == "alt":
        return "%s | %s" % (sub(r[1], 0), sub(r[2], 0, True))
    if k == "cat":
        return "%s %s" % (sub(r[1], 1), sub(r[2], 1, True))
    if k == "star":
        return sub(r[1], 2) + "*"
    if k == "plus":
        return sub(r[1], 2) + "+"
    if k == "opt":
        return sub(r[1], 2) + "?"
    if k == "diff":
        return "%s # %s" % (sub(r[1], 3), sub(r[2], 3, True))
    raise ValueError(r)


def size(r):
    return 1 + sum(size(x) for x in r[1:] if isinstance(x, tuple) and x and isinstance(x[0], str)
                   and x[0] in ("chr", "str", "set", "any", "eoi", "star", "plus", "opt", "cat",
                                "alt", "diff", "var", "builtin"))


def nullable(r, env=None):
    k = r[0]
    if k in ("chr", "set", "any", "builtin", "diff"):
        return False
    if k == "str":
        return len(r[1]) == 0
    if k == "eoi":
        return False
    if k in ("star", "opt"):
        return True
    if k == "plus":
        return nullable(r[1], env)
    if k == "cat":
        return nullable(r[1], env) and nullable(r[2], env)
    if k == "alt":
        return nullable(r[1], env) or nullable(r[2], env)
    if k == "var":
        return nullable(env[r[1]], env) if env and r[1] in env else False
    raise ValueError(r)


def is_class(r, env=None):
    """Can r be an operand of `#`?"""
    k = r[0]
    if k in ("chr", "set", "any", "builtin"):
        return True
    if k in ("alt", "diff"):
        return is_class(r[1], env) and is_class(r[2], env)
    if k == "var":
        return env is not None and r[1] in env and is_class(env[r[1]], env)
    return False


class Rule(object):
    """One rule: regex, optional right context, kind ('simple' | 'skip' | 'infallible' |
    'fallible'), and the Rust text of its right-hand side."""

    def __init__(self, re, ctx=None, kind="simple", rhs=None):
        self.re = re
        self.ctx = ctx
        self.kind = kind
        self.rhs = rhs


class Def(object):
    """A lexer definition: items at top level and inside rule sets.
    top: list of ('let', name, re) | Rule         (unnamed-rule form), or
    sets: list of (name, [('let', name, re) | Rule])  with top-level lets in `top`."""

    def __init__(self, name="L", top=None, sets=None, token="usize", error_type=None,
                 state_type=None, attrs=None, vis="", minimal=False, extra_items=""):
        self.name = name
        self.top = top or []
        self.sets = sets
        self.token = token
        self.error_type = error_type
        self.state_type = state_type
        self.attrs = attrs or []
        self.vis = vis
        self.minimal = minimal
        self.extra_items = extra_items

    def rules_in_order(self):
        """All rules in textual order = semantic action index order."""
        out = []
        for it in self.top:
            if isinstance(it, Rule):
                out.append(it)
        if self.sets:
            for _, items in self.sets:
                for it in items:
                    if isinstance(it, Rule):
                        out.append(it)
        return out

    def render_rule(self, r, idx):
        lhs = show(r.re, self.minimal)
        if r.ctx is not None:
            lhs += " > " + show(r.ctx, self.minimal)
        if r.kind == "skip":
            return lhs + ","
        if r.kind == "simple":
            return "%s = %s," % (lhs, r.rhs if r.rhs is not None else str(idx))
        if r.kind == "infallible":
            return "%s => %s," % (lhs, r.rhs if r.rhs is not None else
                                  "|lexer| lexer.return_(%d)" % idx)
        if r.kind == "fallible":
            return "%s =? %s," % (lhs, r.rhs if r.rhs is not None else
                                  "|lexer| lexer.return_(Ok(%d))" % idx)
        raise ValueError(r.kind)

    def render(self):
        lines = []
        for a in self.attrs:
            lines.append("    " + a)
        st = "(%s)" % self.state_type if self.state_type else ""
        lines.append("    %s%s%s -> %s;" % (self.vis + " " if self.vis else "", self.name, st, self.token))
        if self.error_type:
            lines.append("    type Error = %s;" % self.error_type)
        idx = 0
        for it in self.top:
            if isinstance(it, Rule):
                lines.append("    " + self.render_rule(it, idx))
                idx += 1
            elif it[0] == "let":
                lines.append("    let %s = %s;" % (it[1], show(it[2], self.minimal)))
            else:
                lines.append("    " + it[1])      # raw text
        if self.sets:
            for name, items in self.sets:
                lines.append("    rule %s {" % name)
                for it in items:
                    if isinstance(it, Rule):
                        lines.append("        " + self.render_rule(it, idx))
                        idx += 1
                    elif it[0] == "let":
                        lines.append("        let %s = %s;" % (it[1], show(it[2], self.minimal)))
                    else:
                        lines.append("        " + it[1])
                lines.append("    }")
        return "lexgen::lexer! {\n" + "\n".join(lines) + "\n}\n"
