"""Reference semantics of lexer definitions, written independently of lexgen's pipeline.

A definition is compiled to a nondeterministic automaton per rule set (Thompson construction over
interval-set labels, a separate end-of-input symbol); deterministic states are sets of NFA states
explored lazily by tv. Semantics per README: `_` any character, `$` end of input (consumes nothing),
`a # b` set difference of character classes, first listed rule wins among matches of equal length.
"""
from . import ivl
from .rx import Rule

EOI = "eoi"


class Undefined(Exception):
    pass


def class_set(r, env, builtin_sets):
    """Interval set denoted by a character-class expression."""
    k = r[0]
    if k == "chr":
        return ((ord(r[1]), ord(r[1])),)
    if k == "set":
        iv = []
        for it in r[1]:
            if isinstance(it, tuple):
                iv.append((ord(it[0]), ord(it[1])))
            else:
                iv.append((ord(it), ord(it)))
        return ivl.norm(iv)
    if k == "any":
        return ivl.FULL
    if k == "builtin":
        return builtin_sets[r[1]]
    if k == "alt":
        return ivl.union(class_set(r[1], env, builtin_sets), class_set(r[2], env, builtin_sets))
    if k == "diff":
        return ivl.minus(class_set(r[1], env, builtin_sets), class_set(r[2], env, builtin_sets))
    if k == "var":
        if r[1] not in env:
            raise Undefined(r[1])
        return class_set(env[r[1]], env, builtin_sets)
    raise ValueError("not a character class: %r" % (r,))


class NFA(object):
    def __init__(self):
        self.eps = []       # state -> set of states
        self.trans = []     # state -> list of (label, target); label = interval set or EOI
        self.accept = {}    # state -> (rule index, ctx index or None)

    def new(self):
        self.eps.append(set())
        self.trans.append([])
        return len(self.eps) - 1

    def add(self, r, s, t, env, bs):
        k = r[0]
        if k in ("chr", "set", "any", "builtin", "diff"):
            lab = ivl.inter(class_set(r, env, bs), ivl.FULL)
            if lab:
                self.trans[s].append((lab, t))
        elif k == "str":
            cur = s
            n = len(r[1])
            if n == 0:
                self.eps[s].add(t)
            for i, c in enumerate(r[1]):
                nxt = t if i == n - 1 else self.new()
                self.trans[cur].append((((ord(c), ord(c)),), nxt))
                cur = nxt
        elif k == "eoi":
            self.trans[s].append((EOI, t))
        elif k == "var":
            if r[1] not in env:
                raise Undefined(r[1])
            self.add(env[r[1]], s, t, env, bs)
        elif k == "cat":
            m = self.new()
            self.add(r[1], s, m, env, bs)
            self.add(r[2], m, t, env, bs)
        elif k == "alt":
            self.add(r[1], s, t, env, bs)
            self.add(r[2], s, t, env, bs)
        elif k == "opt":
            self.eps[s].add(t)
            self.add(r[1], s, t, env, bs)
        elif k in ("star", "plus"):
            a, b = self.new(), self.new()
            self.eps[s].add(a)
            self.add(r[1], a, b, env, bs)
            self.eps[b].add(a)
            self.eps[b].add(t)
            if k == "star":
                self.eps[s].add(t)
        else:
            raise ValueError(r)

    def closure(self, states):
        seen = set(states)
        work = list(states)
        while work:
            x = work.pop()
            for y in self.eps[x]:
                if y not in seen:
                    seen.add(y)
                    work.append(y)
        return frozenset(seen)


class RefAutomaton(object):
    """Deterministic view of one NFA (a rule set, or a right context)."""

    def __init__(self, nfa, start):
        self.nfa = nfa
        self.start = nfa.closure([start])
        self._tr = {}
        self.canon = {}

    def cand(self, d):
        """Ordered candidates (rule index, ctx index) accepting in d, cut after the first
        context-free one."""
        c = sorted(self.nfa.accept[s] for s in d if s in self.nfa.accept)
        out = []
        for rule, ctx in c:
            out.append((rule, ctx))
            if ctx is None:
                break
        return out

    def transitions(self, d):
        """[(interval set, target state)] partition of all scalar values (dead = empty set), and
        the end-of-input target."""
        if d in self._tr:
            return self._tr[d]
        labs = []
        eoi_t = set()
        for s in d:
            for lab, t in self.nfa.trans[s]:
                if lab == EOI:
                    eoi_t.add(t)
                else:
                    labs.append((lab, t))
        # boundaries
        cuts = {0, ivl.SUR_LO, ivl.SUR_HI + 1, ivl.MAXC + 1}
        for lab, _ in labs:
            for a, b in lab:
                cuts.add(a)
                cuts.add(b + 1)
        cuts = sorted(cuts)
        groups = {}
        for i in range(len(cuts) - 1):
            lo, hi = cuts[i], cuts[i + 1] - 1
            if lo >= ivl.SUR_LO and hi <= ivl.SUR_HI:
                continue
            tg = frozenset(t for lab, t in labs if ivl.contains(lab, lo))
            groups.setdefault(tg, []).append((lo, hi))
        out = []
        for tg, iv in groups.items():
            out.append((ivl.norm(iv), self.nfa.closure(tg) if tg else frozenset()))
        res = (out, self.nfa.closure(eoi_t) if eoi_t else frozenset())
        self._tr[d] = res
        return res

    def is_terminal(self, d):
        tr, eoi = self.transitions(d)
        return not eoi and all(not t for _, t in tr)


class RefDef(object):
    """Reference compilation of a whole definition (rx.Def)."""

    def __init__(self, d, builtin_sets):
        self.d = d
        self.bs = builtin_sets
        self.rule_sets = {}     # name -> RefAutomaton
        self.ctxs = []          # ctx index -> RefAutomaton (acceptor)
        self.rule_kind = {}
        self.ctx_of_rule = {}
        self.action_class = {}
        self._classes = {}
        self.build()
        for aut in self.rule_sets.values():
            aut.canon = self.action_class

    def build(self):
        d = self.d
        env = {}
        idx = 0

        def add_rule(nfa, start, rule, env):
            nonlocal idx
            ctx_idx = None
            if rule.ctx is not None:
                cn = NFA()
                cs = cn.new()
                ca = cn.new()
                cn.add(rule.ctx, cs, ca, dict(env), self.bs)
                cn.accept[ca] = (0, None)
                ctx_idx = len(self.ctxs)
                self.ctxs.append(RefAutomaton(cn, cs))
            a = nfa.new()
            nfa.accept[a] = (idx, ctx_idx)
            s = nfa.new()
            nfa.eps[start].add(s)
            nfa.add(rule.re, s, a, dict(env), self.bs)
            self.rule_kind[idx] = rule.kind
            self.ctx_of_rule[idx] = ctx_idx
            # rules whose right-hand sides are the same text run interchangeable actions
            rhs = getattr(rule, "rhs", None)
            key = (rule.kind, rhs) if (rhs is not None or rule.kind == "skip") else ("rule", idx)
            self.action_class[idx] = self._classes.setdefault(key, idx)
            idx += 1

        if d.sets is None:
            nfa = NFA()
            start = nfa.new()
            for it in d.top:
                if isinstance(it, Rule):
                    add_rule(nfa, start, it, env)
                elif it[0] == "let":
                    env[it[1]] = it[2]
            self.rule_sets["Init"] = RefAutomaton(nfa, start)
        else:
            for it in d.top:
                if not isinstance(it, Rule) and it[0] == "let":
                    env[it[1]] = it[2]
            for name, items in d.sets:
                nfa = NFA()
                start = nfa.new()
                local = dict(env)
                for it in items:
                    if isinstance(it, Rule):
                        add_rule(nfa, start, it, local)
                    elif it[0] == "let":
                        local[it[1]] = it[2]
                self.rule_sets[name] = RefAutomaton(nfa, start)
