"""Per-property composition of rules (DESIGN.md section 3)."""

RUNTIME_TB = ["R-SUM's specification table in lexlint/rules_runtime.py (the contract of the 9 "
              "runtime methods and 4 constructors)"]


def c05(ctx, env):
    env.runtime(ctx, {"R-SUM", "R-WHO"})
    env.replay_gen(ctx, {"P1", "P2", "P3", "P4", "P9", "R-WHO"})


def c06(ctx, env):
    env.runtime(ctx, {"R-SUM", "R-PAIR", "R-WHO"})
    env.replay_gen(ctx, {"P5", "P2", "P9", "R-WHO"})


def c07(ctx, env):
    env.runtime(ctx, {"R-SUM"})
    env.replay_gen(ctx, {"P5", "P6", "R-SAVED", "P9"})


def c08(ctx, env):
    env.runtime(ctx, {"R-SUM", "R-WHO"})
    env.replay_gen(ctx, {"P6", "P7", "P9", "R-WHO"})


def c09(ctx, env):
    env.runtime(ctx, {"R-PANIC", "R-SUM"})
    env.replay_gen(ctx, {"R-PANIC", "P1", "P2", "P5", "P9", "R-BSEARCH"})


def c10(ctx, env):
    env.runtime(ctx, {"R-SUM", "R-WHO"})
    env.replay_gen(ctx, {"P5", "P9", "R-SUGAR", "R-WHO"})


def c14(ctx, env):
    env.runtime(ctx, {"R-SUM", "R-CTOR", "R-WHO"})
    env.replay_gen(ctx, {"R-CTOR", "R-WHO"})


def c15(ctx, env):
    env.runtime(ctx, {"R-TYPES"})
    env.replay_gen(ctx, {"R-WHO"})


PROPS = {
    "C05": {
        "run": c05, "level": "other",
        "title": "End-of-input protocol",
        "technique": "typestate rules over the MIR of every generated next() (path-sensitive "
                     "abstract interpretation) + effect summaries of the runtime",
        "explanation": "P1: every loop iteration of every generated next() starts with the __done "
                       "test; P3: the None branch of every read sets __done first; P4: `return "
                       "None` only as Init's end-of-input outcome; P2: one read per state, iterator "
                       "replaced only by backtrack; R-WHO: __done written only by constructors, "
                       "backtrack (false) and the read's None branch (true); R-SUM: backtrack "
                       "clears __done exactly on its rewind path. Decided for all inputs on every "
                       "available expansion; the runtime part for all definitions.",
        "trusted_base": RUNTIME_TB,
        "assumptions": ["definitions outside the repository's lexers and the witness corpus are "
                        "covered only by the runtime and template-independent rules"],
    },
    "C06": {
        "run": c06, "level": "other",
        "title": "Spans and locations",
        "technique": "effect summaries (abstract interpretation of lexgen_util's MIR) vs a "
                     "specification table; save/restore pairing; who-may-write table; provenance of "
                     "the token span in generated code",
        "explanation": "Inductive invariant I (end location = scan of consumed prefix, iterator "
                       "positioned there, start = an earlier end): constructors establish it and "
                       "next/reset_match/set_accepting_state/backtrack preserve it (R-SUM, R-PAIR); "
                       "no other function writes the five fields (R-WHO over lexgen_util and every "
                       "generated item); the token span is (start after the action, end at the "
                       "match) read before reset_match (P5).",
        "trusted_base": RUNTIME_TB + ["unicode_width returns the display width"],
    },
    "C07": {
        "run": c07, "level": "other",
        "title": "Errors exactly when nothing matches, located at the lexeme start",
        "technique": "typestate (may-saved fixpoint) and value provenance over the extracted LTS of "
                     "every generated lexer",
        "explanation": "R-SAVED: no in-place InvalidToken on any path where a saved match may "
                       "exist; P6: every failure path returns InvalidToken located at "
                       "current_match_start read before the reset; P5: Custom(e) carries the "
                       "action's error unchanged, located at the match start, without a token; "
                       "R-SUM: backtrack's nothing-saved path reports start@entry.",
        "trusted_base": RUNTIME_TB,
    },
    "C08": {
        "run": c08, "level": "other",
        "title": "After a failure: resume past the bad text, in Init, and stay",
        "technique": "typestate over every failure path of every generated lexer + runtime summary",
        "explanation": "P6: on every path returning InvalidToken, __state = 0 and __initial_state = "
                       "0, the current match is empty, the iterator is not rewound, no action runs "
                       "and the user state is untouched; R-SUM: backtrack's nothing-saved path "
                       "resets both; R-WHO: __initial_state is otherwise written only by switch.",
        "trusted_base": RUNTIME_TB,
    },
    "C09": {
        "run": c09, "level": "other",
        "title": "Termination, progress, no panic",
        "technique": "may-panic site enumeration over MIR (allow-list), loop-shape and progress "
                     "obligations on the extracted LTS",
        "explanation": "R-PANIC: the set of Assert terminators and panicking callees in "
                       "lexgen_util and in all template-generated code equals the allow-list; P1/P2: "
                       "each loop iteration returns or performs exactly one read, the only loop is "
                       "the dispatch loop (segments are acyclic by construction of the extraction, "
                       "a cycle is reported); P5: no saved match survives an action (no stale "
                       "rewind loop). The count bound n+1 follows on paper and is not computed.",
        "trusted_base": RUNTIME_TB,
        "assumptions": ["no rule matches the empty string (checked per definition and reported as "
                        "a note, not a violation)"],
    },
    "C10": {
        "run": c10, "level": "other",
        "title": "Semantic-action protocol",
        "technique": "typestate over action call sites + wrapper summaries by abstract "
                     "interpretation with inlining",
        "explanation": "P5: at most one action per iteration, only at immediate accepts and after "
                       "a successful rewind, with no saved match; Continue keeps the match and "
                       "returns to the rule set's entry; Return reads the span, resets once, "
                       "returns. R-SUGAR: every generated wrapper is one of the four documented "
                       "shapes (skip = reset_match+Continue, simple = Return(Ok(expr)), infallible "
                       "= user result mapped through Ok, fallible = user result unchanged); handle "
                       "methods delegate one-to-one. R-WHO: user_state is reachable only through "
                       "state().",
        "trusted_base": RUNTIME_TB,
    },
    "C14": {
        "run": c14, "level": "proof",
        "title": "Constructor independence",
        "technique": "constructor effect summaries + pairwise agreement + read-set of `input` "
                     "(non-interference argument)",
        "explanation": "All behaviour is a function of the Lexer value. The four constructors "
                       "produce values equal on every field except `input` and the iterator's "
                       "source (R-SUM, R-CTOR); `input` is read only by match_ (R-WHO); every "
                       "generated constructor only wraps the runtime constructor of the same name "
                       "applied to its own arguments (R-CTOR on each expansion). Hence equal "
                       "character sequences and user states give equal streams.",
        "trusted_base": RUNTIME_TB,
    },
    "C15": {
        "run": c15, "level": "proof",
        "title": "Clone independence",
        "technique": "type-level rule over ADT definitions and impls",
        "explanation": "R-TYPES: no field of Lexer/Loc/LexerError contains Rc/Arc/Cell/RefCell/"
                       "Mutex/atomics/raw pointers/&mut; Clone for Lexer and Loc is derived "
                       "(field-wise); lexgen_util and generated items define no mutable or "
                       "non-Freeze static and call no nondeterministic API. A clone is therefore an "
                       "equal, disjoint value and the lexer is a deterministic function of it.",
        "assumptions": ["the user state's and the user iterator's Clone are deep"],
    },
}
