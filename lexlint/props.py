"""Per-property composition of rules (DESIGN.md section 3)."""

RUNTIME_TB = ["R-SUM's specification table in lexlint/rules_runtime.py (the contract of the 9 "
              "runtime methods and 4 constructors)"]


GEN_ALL = {"P1", "P2", "P3", "P4", "P5", "P6", "P7", "P8", "P9", "R-SAVED", "R-BSEARCH", "R-NAMES",
           "R-WHO", "R-PANIC", "R-CTOR", "R-SUGAR"}
FLOORS = {"ops": 700, "munch": 240, "rulesets": 70, "rctx": 190, "eoi": 40, "classes": 330, "builtins": 110,
          "prec": 265, "actions": 7, "modules": 10, "illformed": 114, "mix": 150}


def c01(ctx, env):
    env.src(ctx, ["R-WL", "R-EXH", "R-ORDER", "R-INLINE", "R-SUBSET", "R-PROV"])
    env.runtime(ctx, {"R-SUM", "R-PAIR"})
    env.replay_gen(ctx, {"R-SAVED", "P5", "P6", "P9", "TV", "TV-CTX"})
    env.witnesses(ctx, ["munch", "ops", "rctx", "rulesets", "mix"],
                  {"TV", "TV-CTX", "COMPILE", "R-SAVED", "P5", "P6", "P9", "R-BSEARCH"}, FLOORS)


def c02(ctx, env):
    env.src(ctx, ["R-THOMPSON", "R-PRIM", "R-SUBSET", "R-PROV", "R-FLOW", "R-EXH"])
    env.replay_gen(ctx, {"TV", "R-BSEARCH"})
    env.witnesses(ctx, ["ops", "classes", "prec", "mix"], {"TV", "COMPILE", "R-BSEARCH", "P9"}, FLOORS)


def c03(ctx, env):
    env.src(ctx, ["R-OFFSET", "R-SHIFT", "R-INLINE"])
    env.runtime(ctx, {"R-SUM", "R-WHO"})
    env.replay_gen(ctx, {"P7", "P5", "P6", "P9", "R-WHO", "TV"})
    env.witnesses(ctx, ["rulesets", "actions", "mix"], {"TV", "COMPILE", "P7", "P5", "P6", "P9", "R-WHO"}, FLOORS)


def c04(ctx, env):
    env.src(ctx, ["R-SCOPE"])
    env.replay_gen(ctx, {"P5", "P8", "P9", "R-BSEARCH", "TV", "TV-CTX"})
    env.witnesses(ctx, ["rctx", "modules", "mix"], {"TV", "TV-CTX", "COMPILE", "P5", "P8", "P9", "R-BSEARCH"}, FLOORS)


def c05(ctx, env):
    env.src(ctx, ["R-PROV", "R-SUBSET"])
    env.runtime(ctx, {"R-SUM", "R-WHO"})
    env.replay_gen(ctx, {"P1", "P2", "P3", "P4", "P9", "R-WHO", "TV"})
    env.witnesses(ctx, ["eoi", "mix"], {"TV", "COMPILE", "P1", "P2", "P3", "P4", "P9"}, FLOORS)


def c06(ctx, env):
    env.runtime(ctx, {"R-SUM", "R-PAIR", "R-WHO"})
    env.replay_gen(ctx, {"P5", "P6", "P2", "P9", "R-WHO"})


def c07(ctx, env):
    env.runtime(ctx, {"R-SUM"})
    env.replay_gen(ctx, {"P5", "P6", "R-SAVED", "P9", "TV", "TV-CTX"})
    env.witnesses(ctx, ["munch", "actions", "rctx"], {"TV", "TV-CTX", "COMPILE", "P5", "P6", "R-SAVED", "P9"}, FLOORS)


def c08(ctx, env):
    env.src(ctx, ["R-OFFSET", "R-SHIFT"])
    env.runtime(ctx, {"R-SUM", "R-WHO"})
    env.replay_gen(ctx, {"P3", "P6", "P7", "P9", "R-WHO"})
    env.witnesses(ctx, ["rulesets", "eoi"], {"COMPILE", "P3", "P6", "P7", "P9", "R-WHO"}, FLOORS)


def c09(ctx, env):
    env.runtime(ctx, {"R-PANIC", "R-SUM"})
    env.replay_gen(ctx, {"R-PANIC", "P1", "P2", "P3", "P5", "P9", "R-BSEARCH"})
    env.witnesses(ctx, ["munch", "rctx", "builtins", "eoi"],
                  {"COMPILE", "R-PANIC", "P1", "P2", "P3", "P5", "P9", "R-BSEARCH", "TV-CTX"}, FLOORS)


def c10(ctx, env):
    env.runtime(ctx, {"R-SUM", "R-WHO"})
    env.replay_gen(ctx, {"P5", "P9", "R-SUGAR", "R-WHO"})
    env.witnesses(ctx, ["actions"], {"COMPILE", "P5", "P9", "R-SUGAR", "R-WHO", "TV"}, FLOORS)


def c11(ctx, env):
    env.src(ctx, ["R-CLASS"])
    env.tables(ctx, ["R-DATA"])
    env.replay_gen(ctx, {"R-BSEARCH", "TV"})
    env.witnesses(ctx, ["classes"], {"TV", "COMPILE", "R-BSEARCH", "P9"}, FLOORS)


def c12(ctx, env):
    env.src(ctx, ["R-DET", "R-WL", "R-THOMPSON", "R-SUBSET"])
    env.replay_gen(ctx, {"R-NAMES"})
    env.witnesses(ctx, ["modules", "rctx", "builtins", "rulesets", "classes", "munch"],
                  {"COMPILE", "R-NAMES"}, FLOORS)


def c13(ctx, env):
    env.src(ctx, ["R-CLASS", "R-THOMPSON"])
    env.tables(ctx, ["R-MAP", "R-DATA", "R-ORACLE"])
    env.replay_gen(ctx, {"R-BSEARCH", "TV"})
    env.witnesses(ctx, ["builtins"], {"TV", "COMPILE", "R-BSEARCH", "P9"}, FLOORS)


def c14(ctx, env):
    env.runtime(ctx, {"R-SUM", "R-CTOR", "R-WHO"})
    env.replay_gen(ctx, {"R-CTOR", "R-WHO"})
    env.witnesses(ctx, ["modules", "actions"], {"COMPILE", "R-CTOR", "R-WHO"}, FLOORS)


def c15(ctx, env):
    env.runtime(ctx, {"R-TYPES"})
    env.replay_gen(ctx, {"R-WHO"})
    env.witnesses(ctx, ["modules"], {"COMPILE", "R-WHO"}, FLOORS)
    from . import rules_who as rw
    check_generated_statics(ctx, env)


def check_generated_statics(ctx, env):
    """Generated items define no mutable / non-Freeze static (repository expansions)."""
    from . import lts
    n = 0
    from .analysis import REPO_LEXER_CRATES
    for cn, is_test, _ in REPO_LEXER_CRATES:
        cr = env.prog.crate(cn, test=is_test)
        for s in cr.data["statics"]:
            if s["from_expansion"] and s.get("expn_macro") == "lexgen::lexer":
                n += 1
                ctx.ob("R-TYPES", "generated static %s is immutable and Freeze" % s["path"],
                       not s["mutable"] and s["freeze"], key="R-TYPES:gen-static:" + s["path"],
                       where=s["span"])
    ctx.count("generated_statics", n)


def c16(ctx, env):
    env.src(ctx, ["R-PARSE", "R-SCOPE", "R-THOMPSON", "R-CLASS"])
    env.replay_gen(ctx, {"TV", "TV-CTX"})
    env.witnesses(ctx, ["prec", "illformed", "rctx"], {"TV", "TV-CTX", "COMPILE", "REJECT"}, FLOORS)


def c17(ctx, env):
    env.src(ctx, ["R-CHK", "R-SCOPE"])
    env.witnesses(ctx, ["illformed"], {"REJECT", "COMPILE"}, FLOORS)


def c18(ctx, env):
    env.tables(ctx, ["R-GEN", "R-DATA"])


PROPS = {
    "C01": {
        "run": c01, "level": "translation_validation",
        "title": "Longest match, first-rule priority, rewinding",
        "technique": "translation validation by static analysis: LTS extracted from the MIR of the "
                     "generated lexer vs an independent reference automaton (bisimulation), plus "
                     "may-saved typestate on every expansion and worklist-progress rules on the macro",
        "explanation": "For every witness definition (families munch, ops, rctx, rulesets) the "
                       "labelled transition system extracted from the generated next() is bisimilar "
                       "to the reference automaton built from the same definition: same successor "
                       "for every character and end of input, same save decision (first-priority "
                       "rule, contexts as predicates) on entering every state, immediate accepts "
                       "and dead states in the same places. With R-SAVED (no in-place error where a "
                       "match may be saved), P5/P6 (saved match cleared exactly when an action "
                       "runs) and R-SUM/R-PAIR (rewind restores the snapshot) this is maximal munch "
                       "for all inputs. For all definitions: update_backtracks is a monotone "
                       "worklist (R-WL), every pass treats all four transition kinds (R-EXH), "
                       "accepting states are collected in rule order (R-ORDER).",
        "trusted_base": RUNTIME_TB + ["lexlint/refsem.py (reference semantics per README)"],
        "assumptions": ["definitions outside the witness corpus are covered only by the "
                        "all-definition rules (R-WL, R-EXH, R-ORDER) and the per-expansion typestate"],
    },
    "C02": {
        "run": c02, "level": "translation_validation",
        "title": "Regex operators denote their documented languages",
        "technique": "structural induction on the regex over templates extracted from add_re's MIR "
                     "(def-use analysis + automata equivalence of per-operator templates, R-THOMPSON/R-PRIM); "
                     "translation validation (extracted LTS vs reference automaton) on a "
                     "bounded-exhaustive family of operator trees; dependency rule on the subset construction",
        "explanation": "Every operator tree up to the enumerated size over atoms 'a' 'b' ['a'-'c'] "
                       "['b'-'d'] _ \"ab\" $v (family ops), the class algebra family and the "
                       "precedence family are bisimilar to their reference automata; equal-language "
                       "pairs are separate witnesses related to the same reference. R-FLOW: DFA "
                       "transition targets depend on char, covering range and `_` NFA targets; "
                       "R-EXH: all four kinds consulted. For all definitions: R-THOMPSON extracts, per "
                       "variant of ast::Regex, the builder calls of add_re with the origin of each "
                       "argument; each operator's template has exactly the documented language with "
                       "recursive calls read as edges, every fragment is closed (no edge into "
                       "`current`, none out of `cont`), hence by induction the NFA fragment spells "
                       "L(re) for regexes of any depth; the templates composed on all 4424 trees of "
                       "<= 6 nodes agree with the textbook construction; R-PRIM: NFA builders and "
                       "accessors agree on the State field they use.",
        "trusted_base": ["lexlint/refsem.py", "the textbook Thompson fragments in lexlint/rules_thompson.py"],
    },
    "C03": {
        "run": c03, "level": "translation_validation",
        "title": "Rule sets isolated; entered only by switch or failure reset",
        "technique": "translation validation per rule set entry + typestate on __state/__initial_state writers "
                     "+ sibling agreement of the three state-index rewritings (R-OFFSET, R-SHIFT, R-INLINE)",
        "explanation": "P7: switch maps each rule-set variant to one constant stored in __state and "
                       "__initial_state; for every witness (family rulesets: 1-4 rule sets, all "
                       "orders, empty sets, dropped and inlined states before later entries) the "
                       "node of that constant is bisimilar to the reference automaton of that rule "
                       "set alone. On all expansions: __state/__initial_state are written only by "
                       "constructors, switch, transitions, the post-action return to "
                       "__initial_state and failure resets (R-WHO, P5, P6, P9). For all definitions: "
                       "add_dfa shifts every successor kind and the predecessor sets by the same "
                       "offset and returns it as the entry (R-OFFSET); simplify renumbers entries "
                       "and transition targets from the same list of removed states and never "
                       "removes an initial state (R-SHIFT); all five inlining decisions in codegen "
                       "use the same condition (R-INLINE).",
        "trusted_base": RUNTIME_TB + ["lexlint/refsem.py"],
    },
    "C04": {
        "run": c04, "level": "translation_validation",
        "title": "Right context gates a match without consuming input",
        "technique": "translation validation of context acceptors and of the main LTS with contexts "
                     "as predicates; ownership rule on the context argument",
        "explanation": "Every context function of the rctx witnesses is bisimilar to the reference "
                       "acceptor of 'some prefix of the rest, end-of-input visible, is in L(ctx)'; "
                       "the main LTS agrees with the reference for every assignment of context "
                       "outcomes (a failed context = candidate absent); P8: contexts run on a clone "
                       "of the iterator and take it by value, so nothing is consumed; P5: every action, "
                       "also one reached through a context chain, runs with the saved match cleared, so "
                       "a context that fails in the next lexeme cannot rewind to a stale match.",
        "trusted_base": ["lexlint/refsem.py"],
    },
    "C11": {
        "run": c11, "level": "translation_validation",
        "title": "Character-class algebra exact at every code point",
        "technique": "translation validation: exact interval sets on extracted edges vs reference sets; "
                     "operand/operation dispatch rule on regex_to_range_map (R-CLASS)",
        "explanation": "For every class expression of family classes (overlaps, end points, removed "
                       "range spanning several pieces / equal to a piece / touching, chained #, _, "
                       "built-ins, surrogate boundary) the interval set labelling each extracted "
                       "edge equals the reference set at every scalar value; search tables are "
                       "sorted/disjoint/scalar (R-BSEARCH, R-DATA). R-CLASS: per variant, which class "
                       "operation is applied to which operand in which order (`#` = remove right from "
                       "left). NOT decided: arbitrary operation "
                       "sequences on RangeMap (needs symbolic arithmetic, outside this family).",
        "trusted_base": ["lexlint/refsem.py", "lexlint/ivl.py"],
        "assumptions": ["only the RangeMap operation sequences induced by the witness expressions "
                        "are covered"],
    },
    "C12": {
        "run": c12, "level": "other",
        "title": "Expansion terminates, is deterministic, output compiles",
        "technique": "type rule (no RandomState), worklist-progress idioms, pairing rule of the subset "
                     "construction (registered => queued and emitted), compile-pass witnesses, naming rule",
        "explanation": "R-DET: no nondeterministically seeded container or API in crate lexgen; R-WL: "
                       "the three worklists match a progress idiom; R-SUBSET: every DFA state created is "
                       "registered, queued and becomes the target of a transition that is really added "
                       "(an orphan state trips update_backtracks' final assertion and the expansion "
                       "panics); compile-pass of witnesses with "
                       "contexts of every shape, repeated bracket characters, large built-ins, "
                       "several rule sets and two table-using lexers in one module; R-NAMES on every "
                       "expansion. A witness whose expansion exceeds the watchdog is reported.",
        "assumptions": ["termination of generate_state's recursion is argued on paper (DESIGN 7)"],
    },
    "C13": {
        "run": c13, "level": "translation_validation",
        "title": "Built-in classes = Rust predicates",
        "technique": "exhaustive data comparison by interval arithmetic + name/variant/table/predicate "
                     "bijection + translation validation of both membership shapes",
        "explanation": "R-MAP: name, variant, table and generator predicate agree (20 each, "
                       "bijective); R-DATA: tables well-formed; R-ORACLE: each table equals the "
                       "toolchain's predicate at all 1,112,064 scalar values (7 tables predate the "
                       "toolchain's Unicode version: known finding K1); builtins witnesses: "
                       "extracted edge sets equal the table for guard chains and for search tables "
                       "(comparator verified by R-BSEARCH).",
        "trusted_base": ["tools/oracle (core + unicode-xid predicates of the installed toolchain)"],
    },
    "C16": {
        "run": c16, "level": "translation_validation",
        "title": "Documented precedence and variable scoping",
        "technique": "parser-structure rules on resolved calls + translation validation of minimally "
                     "parenthesised printings",
        "explanation": "R-PARSE: levels call only the next level, each level consumes exactly its "
                       "operator tokens, binary levels are left-associative, the concatenation "
                       "continuation set equals the atom start set; R-SCOPE: rule sets get a clone "
                       "of the bindings; R-THOMPSON: a variable is expanded in place between the "
                       "current and continuation states. prec witnesses: every operator pair/triple printed with "
                       "minimal and with full parentheses is bisimilar to the reference of the "
                       "intended tree; compile-fail witness for a rule-set-local variable used in "
                       "another rule set, with compiling twin.",
        "trusted_base": ["lexlint/refsem.py", "lexlint/rx.py printer"],
    },
    "C17": {
        "run": c17, "level": "other",
        "title": "Ill-formed definitions rejected",
        "technique": "check-presence rules (failure path diverges) + compile-fail witnesses with compiling twins",
        "explanation": "R-CHK: each rejection check exists on the resolved API and its failure path "
                       "diverges or returns a compile error; 60 compile-fail witnesses (28 static-rule violations, "
                       "32 token-level syntax slips at every place where a regex may stand) each with a "
                       "compiling twin differing only in the offending line.",
    },
    "C18": {
        "run": c18, "level": "proof",
        "title": "Table generator exact for any predicate",
        "technique": "abstract interpretation of one loop iteration and of the exit path (state "
                     "variable = open range), provenance of pushed end points",
        "explanation": "Iteration table over {closed, open} x {not a char, f true, f false}: state "
                       "unchanged / opened at i / start kept / exactly one push and closed / "
                       "nothing; flush: an open range is pushed after the loop; provenance: pushed "
                       "end points are values the loop variable had while the predicate held, never "
                       "arithmetic. With the loop being 0..=char::MAX ascending this is the "
                       "inductive argument for sorted, disjoint, maximal, scalar-ended ranges for "
                       "any predicate. R-DATA for the 20 committed tables.",
    },
    "C05": {
        "run": c05, "level": "other",
        "title": "End-of-input protocol",
        "technique": "typestate rules over the MIR of every generated next() (path-sensitive "
                     "abstract interpretation) + effect summaries of the runtime",
        "explanation": "P1: every loop iteration of every generated next() starts with the __done "
                       "test; P3: the None branch of every read sets __done first; P4: `return "
                       "None` only as Init's end-of-input outcome; P2: one read per state, iterator "
                       "replaced only by backtrack; R-WHO: __done written only by constructors, "
                       "backtrack (false) and the read's None branch (true); R-SUM: backtrack "
                       "clears __done exactly on its rewind path. Decided for all inputs on every "
                       "available expansion; the runtime part for all definitions.",
        "trusted_base": RUNTIME_TB,
        "assumptions": ["definitions outside the repository's lexers and the witness corpus are "
                        "covered only by the runtime and template-independent rules"],
    },
    "C06": {
        "run": c06, "level": "other",
        "title": "Spans and locations",
        "technique": "effect summaries (abstract interpretation of lexgen_util's MIR) vs a "
                     "specification table; save/restore pairing; who-may-write table; provenance of "
                     "the token span in generated code",
        "explanation": "Inductive invariant I (end location = scan of consumed prefix, iterator "
                       "positioned there, start = an earlier end): constructors establish it and "
                       "next/reset_match/set_accepting_state/backtrack preserve it (R-SUM, R-PAIR); "
                       "no other function writes the five fields (R-WHO over lexgen_util and every "
                       "generated item); the token span is (start after the action, end at the "
                       "match) read before reset_match (P5); every failure path empties the current "
                       "match, so the lexeme after an error starts where the error region ends (P6).",
        "trusted_base": RUNTIME_TB + ["unicode_width returns the display width"],
    },
    "C07": {
        "run": c07, "level": "other",
        "title": "Errors exactly when nothing matches, located at the lexeme start",
        "technique": "typestate (may-saved fixpoint) and value provenance over the extracted LTS of "
                     "every generated lexer",
        "explanation": "R-SAVED: no in-place InvalidToken on any path where a saved match may "
                       "exist; P6: every failure path returns InvalidToken located at "
                       "current_match_start read before the reset; P5: Custom(e) carries the "
                       "action's error unchanged, located at the match start, without a token; "
                       "R-SUM: backtrack's nothing-saved path reports start@entry. Witness "
                       "families munch, actions, rctx (contexts decide whether 'nothing matches'): "
                       "the extracted LTS fails exactly where the reference automaton is dead with "
                       "nothing saved.",
        "trusted_base": RUNTIME_TB,
    },
    "C08": {
        "run": c08, "level": "other",
        "title": "After a failure: resume past the bad text, in Init, and stay",
        "technique": "typestate over every failure path of every generated lexer + runtime summary",
        "explanation": "P6: on every path returning InvalidToken, __state = 0 and __initial_state = "
                       "0, the current match is empty, the iterator is not rewound, no action runs "
                       "and the user state is untouched; R-SUM: backtrack's nothing-saved path "
                       "resets both; R-WHO: __initial_state is otherwise written only by switch; P3: a "
                       "failure at the end of the input is reported with __done set, so nothing follows it.",
        "trusted_base": RUNTIME_TB,
    },
    "C09": {
        "run": c09, "level": "other",
        "title": "Termination, progress, no panic",
        "technique": "may-panic site enumeration over MIR (allow-list), loop-shape and progress "
                     "obligations on the extracted LTS",
        "explanation": "R-PANIC: the set of Assert terminators and panicking callees in "
                       "lexgen_util and in all template-generated code equals the allow-list; P1/P2: "
                       "each loop iteration returns or performs exactly one read, the only loop is "
                       "the dispatch loop (segments are acyclic by construction of the extraction, "
                       "a cycle is reported); P3: every end-of-input arm sets __done first, so the "
                       "single end-of-input event is acted upon once; P5: no saved match survives an "
                       "action (no stale rewind loop). The count bound n+1 follows on paper and is "
                       "not computed.",
        "trusted_base": RUNTIME_TB,
        "assumptions": ["no rule matches the empty string (checked per definition and reported as "
                        "a note, not a violation)"],
    },
    "C10": {
        "run": c10, "level": "other",
        "title": "Semantic-action protocol",
        "technique": "typestate over action call sites + wrapper summaries by abstract "
                     "interpretation with inlining",
        "explanation": "P5: at most one action per iteration, only at immediate accepts and after "
                       "a successful rewind, with no saved match; Continue keeps the match and "
                       "returns to the rule set's entry; Return reads the span, resets once, "
                       "returns. R-SUGAR: every generated wrapper is one of the four documented "
                       "shapes (skip = reset_match+Continue, simple = Return(Ok(expr)), infallible "
                       "= user result mapped through Ok, fallible = user result unchanged); handle "
                       "methods delegate one-to-one. R-WHO: user_state is reachable only through "
                       "state().",
        "trusted_base": RUNTIME_TB,
    },
    "C14": {
        "run": c14, "level": "proof",
        "title": "Constructor independence",
        "technique": "constructor effect summaries + pairwise agreement + read-set of `input` "
                     "(non-interference argument)",
        "explanation": "All behaviour is a function of the Lexer value. The four constructors "
                       "produce values equal on every field except `input` and the iterator's "
                       "source (R-SUM, R-CTOR); `input` is read only by match_ (R-WHO); every "
                       "generated constructor only wraps the runtime constructor of the same name "
                       "applied to its own arguments (R-CTOR on each expansion). Hence equal "
                       "character sequences and user states give equal streams.",
        "trusted_base": RUNTIME_TB,
    },
    "C15": {
        "run": c15, "level": "proof",
        "title": "Clone independence",
        "technique": "type-level rule over ADT definitions and impls",
        "explanation": "R-TYPES: no field of Lexer/Loc/LexerError contains Rc/Arc/Cell/RefCell/"
                       "Mutex/atomics/raw pointers/&mut; Clone for Lexer and Loc is derived "
                       "(field-wise); lexgen_util and generated items define no mutable or "
                       "non-Freeze static and call no nondeterministic API. A clone is therefore an "
                       "equal, disjoint value and the lexer is a deterministic function of it.",
        "assumptions": ["the user state's and the user iterator's Clone are deep"],
    },
}
