"""Rules on generated code (scope: all inputs, each available expansion). See DESIGN.md 2.2."""
import re

from . import ivl
from .lts import LTS, SELF, LX, lx, EL, RT, action_index, table_set, find_expansions
from .models import StdModels, NONE, some, pure
from .segx import Engine, Path, norm_path, project, UNIT
from .rules_runtime import SAVED

SAR = "lexgen_util::SemanticActionResult"

ALLOWED_RT_IN_NEXT = {"Lexer::backtrack", "Lexer::reset_accepting_state",
                      "Lexer::set_accepting_state", "Lexer::reset_match", "Lexer::match_loc"}


def events_with_stack(events):
    """Yield (event, stack) where stack is the tuple of functions being interpreted inline."""
    stack = []
    for e in events:
        if e[0] == "enter":
            stack.append(norm_path(e[1] or "?"))
            yield e, tuple(stack)
        elif e[0] == "leave":
            yield e, tuple(stack)
            if stack:
                stack.pop()
        else:
            yield e, tuple(stack)


def rt_enters(seg):
    return [norm_path(e[1]) for e in seg.events if e[0] == "enter" and e[1]
            and norm_path(e[1]).startswith("Lexer::")]


def loc_eq(a, b):
    if a == b:
        return True
    fa = tuple(project(a, l) for l in ("line", "col", "byte_idx"))
    fb = tuple(project(b, l) for l in ("line", "col", "byte_idx"))
    return fa == fb


class GenRules(object):
    """All per-expansion rules; results are recorded into ctx under the given rule names."""

    def __init__(self, ctx, prog, exp, lts=None, want=None):
        self.ctx = ctx
        self.prog = prog
        self.exp = exp
        self.L = lts
        self.want = want      # set of rule names to record (None = all)
        self.id = exp.id

    def ob(self, rule, desc, ok, inst="", where=None, detail=None):
        if self.want is not None and rule not in self.want:
            return ok
        return self.ctx.ob(rule, "%s: %s" % (self.id, desc), ok,
                           key="%s:%s:%s" % (rule, self.id, inst or desc),
                           where=where or self.exp.span, detail=detail)

    def where(self, seg):
        return "%s (lexer %s, segment %r on %s)" % (
            self.exp.span, self.exp.name, seg.start,
            ivl.show(seg.chars) if seg.chars is not None else "end-of-input/entry")

    # ------------------------------------------------------------------ structure
    def structural(self):
        L = self.L
        for key, msg, where in L.problems:
            self.ob(key.split(":")[0], msg, False, inst=key, where=where)
        for s in L.segs:
            if s.kind in ("bad-end", "return?", "return-err?", "backedge?"):
                self.ob("P9", "segment ends in a shape no template produces (%s)" % s.kind, False,
                        inst="end:%s:%r" % (s.kind, s.start), where=self.where(s),
                        detail=repr(s.end)[:300])

    # ------------------------------------------------------------------ P1
    def p1(self):
        L = self.L
        done_true = [(st, end) for st, end in L.head_segs if st.facts.get(EL("__done")) == 1]
        done_any = [(st, end) for st, end in L.head_segs if EL("__done") in st.facts]
        ok = bool(done_true) and len(done_any) == len(L.head_segs)
        for st, end in done_true:
            evs = [e for e in st.events if e[0] in ("write", "enter", "call", "action", "ctx", "havoc")]
            ok = ok and end[0] == "RETURN" and end[1] == NONE and not evs
        self.ob("P1", "every loop iteration starts with `if __done { return None }`", ok,
                inst="done-test")

    # ------------------------------------------------------------------ P2
    def p2(self):
        L = self.L
        for k, segs in sorted(L.arm_segs.items()):
            sites = {s.target for s in segs if s.kind == "read"}
            bad = [s for s in segs if s.kind != "read"]
            self.ob("P2", "state arm %d leads to exactly one read of the input" % k,
                    len(sites) == 1 and not bad, inst="arm:%d" % k,
                    detail=[repr(s) for s in bad][:5])
        n = 0
        for s in L.segs:
            for e, stack in events_with_stack(s.events):
                if e[0] == "write" and e[1] == SELF and e[2][:2] == lx("__iter"):
                    n += 1
                    self.ob("P2", "the input iterator is replaced only by backtrack()",
                            "Lexer::backtrack" in stack, inst="iter-write", where=self.where(s),
                            detail=stack)
        self.ob("P2", "no segment consumes input outside a read (%d iterator restores, all in backtrack)" % n,
                True, inst="iter-summary")

    # ------------------------------------------------------------------ P3 / P4
    def p3p4(self):
        L = self.L
        r0 = L.entry_read(0)
        for site, d in sorted(L.read_segs.items()):
            for s in d["None"]:
                first = None
                for e in s.events:
                    if e[0] in ("write", "enter", "action", "ctx", "call"):
                        first = e
                        break
                ok = (first is not None and first[0] == "write" and first[2] == lx("__done")
                      and first[3] == ("int", 1, "bool"))
                self.ob("P3", "end of input at read %d sets __done before anything else" % site, ok,
                        inst="done-first:%d" % site, where=self.where(s), detail=repr(first)[:200])
            for s in d["Some"]:
                w = [e for e in s.events if e[0] == "write" and e[2] == lx("__done")
                     and e[3] == ("int", 1, "bool")]
                self.ob("P3", "__done is set only at end of input", not w,
                        inst="done-some:%d" % site, where=self.where(s)) if w else None
        for s in L.segs:
            if s.kind == "return-none":
                ok = (s.start == ("read", r0, "None") and s.action is None)
                self.ob("P4", "`return None` occurs only as Init's end-of-input outcome", ok,
                        inst="return-none:%r" % (s.start,), where=self.where(s))

    # ------------------------------------------------------------------ P5
    def p5(self):
        L = self.L
        n_act = 0
        for s in L.segs:
            acts = [e for e in s.events if e[0] == "action"]
            if not acts:
                if s.kind in ("continue", "return-token", "return-custom"):
                    self.ob("P5", "token/continue outcome without an action call", False,
                            inst="no-action:%r" % (s.start,), where=self.where(s))
                continue
            n_act += 1
            w = self.where(s)
            self.ob("P5", "at most one action runs per loop iteration", len(acts) == 1,
                    inst="one-action", where=w) if len(acts) != 1 else None
            a = acts[0]
            how, arg, site, lm = a[1], a[2], a[3], a[4]
            self.ob("P5", "no match is saved when an action runs (last_match cleared first)",
                    lm == NONE, inst="saved-cleared", where=w, detail=repr(lm)[:200])
            self.ob("P5", "the action receives the lexer itself", arg == ("param", 1),
                    inst="action-arg", where=w) if arg != ("param", 1) else None
            bts = [e for e in s.events if e[0] == "enter" and norm_path(e[1] or "") == "Lexer::backtrack"]
            if how[0] == "pointer":
                v = how[1]
                ok = bool(bts) and (v == EL("last_match", "@Some", "0", SAVED["action"])
                                    or (v[0] == "fn" and action_index(self.exp, v) is not None))
                self.ob("P5", "a function pointer is called only if it is the action returned by backtrack()",
                        ok, inst="pointer-origin", where=w, detail=repr(v)[:200])
                end_loc = EL("last_match", "@Some", "0", SAVED["end"])
                saved_known = [e for e in s.events if e[0] == "write" and e[2] == lx("last_match")
                               and e[3] != NONE]
                if saved_known:
                    end_loc = project(saved_known[-1][3][4][0][1], SAVED["end"])
            else:
                self.ob("P5", "an immediate accept does not follow a rewind", not bts,
                        inst="direct-after-backtrack", where=w) if bts else None
                end_loc = EL("current_match_end")
            post_init = ("post-action", site, lx("__initial_state"))
            post_start = ("post-action", site, lx("current_match_start"))
            final_state = s.eng.read(s.st, SELF, lx("__state"))
            final_start = s.eng.read(s.st, SELF, lx("current_match_start"))
            self.ob("P5", "after the action the lexer returns to the rule set's entry state",
                    final_state == post_init, inst="state-reset", where=w,
                    detail=repr(final_state)[:200])
            resets = 0
            after = False
            for e in s.events:
                if e is a:
                    after = True
                elif after and e[0] == "enter" and norm_path(e[1] or "") == "Lexer::reset_match":
                    resets += 1
            ares = ("actres", site)
            R = project(project(ares, "@Return"), "0")
            if s.kind == "continue":
                self.ob("P5", "Continue keeps the current match (no reset)",
                        resets == 0 and final_start == post_start, inst="continue-keeps", where=w)
                self.ob("P5", "Continue is chosen on the action's Continue result",
                        s.st.facts.get(("discr", ares)) == 0, inst="continue-discr", where=w)
            elif s.kind in ("return-token", "return-custom"):
                self.ob("P5", "Return resets the match exactly once, after reading its span",
                        resets == 1 and loc_eq(final_start, end_loc), inst="return-reset", where=w,
                        detail={"resets": resets, "start": repr(final_start)[:120]})
                self.ob("P5", "Return is chosen on the action's Return result",
                        s.st.facts.get(("discr", ares)) == 1, inst="return-discr", where=w)
                if s.kind == "return-token":
                    t = s.ret[4][0][1]
                    ok = (t[0] == "tuple" and len(t[1]) == 3 and loc_eq(t[1][0], post_start)
                          and loc_eq(t[1][2], end_loc)
                          and t[1][1] == project(project(R, "@Ok"), "0"))
                    self.ob("P5", "token is (start of match, action's token unchanged, end of match)",
                            ok, inst="token-tuple", where=w, detail=repr(t)[:300])
                else:
                    e = s.ret[4][0][1]
                    ok = (loc_eq(project(e, "location"), post_start)
                          and project(e, "kind")[4][0][1] == project(project(R, "@Err"), "0"))
                    self.ob("P5", "custom error carries the action's error unchanged, located at the match start",
                            ok, inst="custom-error", where=w, detail=repr(e)[:300])
            else:
                self.ob("P5", "after an action the only outcomes are continue / token / custom error",
                        False, inst="after-action:%s" % s.kind, where=w)
        self.ctx.count("action_call_segments", n_act)

    # ------------------------------------------------------------------ P6
    def p6(self):
        L = self.L
        n = 0
        for s in L.segs:
            if s.kind not in ("fail-direct", "fail-backtrack"):
                continue
            n += 1
            w = self.where(s)
            err = s.ret[4][0][1]
            kind = project(err, "kind")
            self.ob("P6", "failure returns InvalidToken located at the start of the current match",
                    kind[0] == "adt" and kind[2] == "InvalidToken"
                    and loc_eq(project(err, "location"), EL("current_match_start")),
                    inst="location", where=w, detail=repr(err)[:300])
            fs = s.eng.read(s.st, SELF, lx("__state"))
            fi = s.eng.read(s.st, SELF, lx("__initial_state"))
            self.ob("P6", "failure resets both the state and the rule set to Init",
                    fs == ("int", 0, "usize") and fi == ("int", 0, "usize"), inst="reset-init",
                    where=w, detail={"__state": repr(fs)[:80], "__initial_state": repr(fi)[:80]})
            fstart = s.eng.read(s.st, SELF, lx("current_match_start"))
            self.ob("P6", "failure empties the current match (start := end)",
                    loc_eq(fstart, EL("current_match_end")), inst="reset-match", where=w,
                    detail=repr(fstart)[:200])
            self.ob("P6", "no action runs on a failure path", s.action is None, inst="no-action",
                    where=w)
            it = s.eng.read(s.st, SELF, lx("__iter"))
            self.ob("P6", "the input is not rewound on a failure", it == EL("__iter"),
                    inst="no-rewind", where=w)
            us = s.eng.read(s.st, SELF, lx("user_state"))
            self.ob("P6", "the user state is untouched on a failure", us == EL("user_state"),
                    inst="user-state", where=w)
            if s.kind == "fail-backtrack":
                lm = s.eng.read(s.st, SELF, lx("last_match"))
                self.ob("P6", "failure through backtrack() leaves no saved match", lm == NONE,
                        inst="lm-cleared", where=w)
        self.ctx.count("failure_segments", n)

    # ------------------------------------------------------------------ R-SAVED
    def saved_effect(self, s):
        v = s.eng.read(s.st, SELF, lx("last_match"))
        if v == NONE:
            return False
        if v == EL("last_match"):
            return None        # inherited
        return True

    def rsaved(self):
        L = self.L
        if self.accepting_entries():
            self.ctx.notes.append("%s: R-SAVED not applied: an entry state is accepting (a rule "
                                  "matches the empty string), outside the properties' precondition"
                                  % self.id)
            self.may_saved = {}
            return
        X = {r: False for r in L.read_segs}
        A = {k: False for k in L.arm_segs}
        changed = True
        while changed:
            changed = False
            for s in L.segs:
                inh = A[s.start[1]] if s.start[0] == "arm" else X[s.start[1]]
                eff = self.saved_effect(s)
                out = inh if eff is None else eff
                if s.kind == "read":
                    if out and not X[s.target]:
                        X[s.target] = True
                        changed = True
                elif s.kind == "goto":
                    if s.target in A and out and not A[s.target]:
                        A[s.target] = True
                        changed = True
        self.may_saved = X
        n = 0
        for s in L.segs:
            if s.start[0] != "read":
                continue
            if s.kind in ("fail-direct", "return-none"):
                n += 1
                self.ob("R-SAVED", "no in-place error/None where a shorter match may be saved "
                        "(read %d)" % s.start[1], not X[s.start[1]],
                        inst="%s:%d:%s" % (s.kind, s.start[1], s.start[2]), where=self.where(s),
                        detail="a saved match may exist here (set_accepting_state reaches this read "
                               "without an intervening clear) but the failure path does not call "
                               "backtrack(): a valid shorter match would be reported as an error")
        # rule-set entries: nothing may be saved when a rule set is (re)entered, and entering saves nothing
        for k in self.entry_states():
            self.ob("R-SAVED", "entry state %d is never entered with a saved match" % k,
                    not A.get(k, False), inst="entry:%d" % k)
        self.ctx.count("direct_fail_sites", n)
        self.ctx.count("reads_with_saved_match", sum(1 for v in X.values() if v))

    def entry_states(self):
        sw = getattr(self, "switch_map", None)
        ks = {0}
        if sw:
            ks |= set(sw.values())
        return sorted(ks)

    # ------------------------------------------------------------------ progress (C09)
    def accepting_entries(self):
        out = []
        for k in self.entry_states():
            for s in self.L.arm_segs.get(k, []):
                if [e for e in s.events if e[0] == "write" and e[2] == lx("last_match")
                        and e[3] != NONE]:
                    out.append(k)
                    break
        return out

    def progress(self):
        """A rule-set entry state must not be accepting: otherwise some rule matches the empty
        string and the lexer would not make progress. Reported as a violated assumption."""
        L = self.L
        for k in self.entry_states():
            for s in L.arm_segs.get(k, []):
                saves = [e for e in s.events if e[0] == "write" and e[2] == lx("last_match")
                         and e[3] != NONE]
                if saves:
                    # a property of the *definition*, not of lexgen: C09 is stated for lexers none
                    # of whose rules match the empty string
                    self.ctx.count("definitions_with_empty_match_rule")
                    self.ctx.notes.append("%s: entry state %d is accepting (a rule matches the "
                                          "empty string): outside C09's precondition" % (self.id, k))

    # ------------------------------------------------------------------ P7
    def p7(self):
        exp = self.exp
        body = exp.body("switch")
        rule_enum = [a for a in exp.adts if a["path"].endswith(exp.name + "Rule")]
        self.switch_map = {}
        if body is None:
            n = len(rule_enum[0]["variants"]) if rule_enum else 0
            self.ob("P7", "no switch method and no rule sets", n == 0, inst="no-switch")
            return
        if not self.ob("P7", "rule-set enum found", len(rule_enum) == 1, inst="enum"):
            return
        variants = [v["name"] for v in rule_enum[0]["variants"]]
        models = StdModels(program=self.prog, home=exp.crate)
        eng = Engine(body, models=models)
        res = eng.run(0, Path())
        seen = {}
        for st, end in res:
            d = st.facts.get(("discr", ("param", 2)))
            if d is None and len(variants) == 1:
                d = 0      # a single rule set: `match rule { Init => .. }` needs no test
            ok_end = end[0] == "RETURN" and end[1][0] == "adt" and end[1][2] == "Continue"
            ws = {e[2]: e[3] for e in st.events if e[0] == "write" and e[1] == SELF}
            calls = [e for e in st.events if e[0] in ("call", "havoc", "enter")]
            stv = ws.get(lx("__state"))
            okw = (set(ws) == {lx("__state"), lx("__initial_state")} and stv is not None
                   and stv[0] == "int" and ws[lx("__initial_state")] == stv and not calls)
            name = variants[d] if isinstance(d, int) and d < len(variants) else "?%r" % (d,)
            self.ob("P7", "switch(%s) stores one constant into __state and __initial_state and "
                    "returns Continue" % name, ok_end and okw and isinstance(d, int),
                    inst="switch:" + name, where=body["span"],
                    detail={k[-1]: repr(v)[:60] for k, v in ws.items()})
            if okw and isinstance(d, int) and d < len(variants):
                seen[variants[d]] = stv[1]
        self.ob("P7", "switch handles every rule set", sorted(seen) == sorted(variants),
                inst="switch:all", detail={"variants": variants, "handled": sorted(seen)})
        n = self.L.n_states if self.L else None
        if n is not None:
            for v, c in seen.items():
                self.ob("P7", "switch(%s) targets an existing state" % v, 0 <= c < n,
                        inst="switch-range:" + v)
        self.ob("P7", "distinct rule sets have distinct entry states",
                len(set(seen.values())) == len(seen), inst="switch:distinct", detail=seen)
        self.switch_map = seen
        b2 = exp.body("switch_and_return")
        if self.ob("P7", "switch_and_return found", b2 is not None, inst="sar"):
            models = StdModels(program=self.prog, home=exp.crate,
                               inline_ok=lambda c, b: c in (exp.struct + "::switch", exp.struct + "::return_"))
            eng = Engine(b2, models=models)
            res = eng.run(0, Path())
            for st, end in res:
                d = st.facts.get(("discr", ("param", 2)))
                if d is None and len(variants) == 1:
                    d = 0
                ws = {e[2]: e[3] for e in st.events if e[0] == "write" and e[1] == SELF}
                ok = (end[0] == "RETURN" and end[1][0] == "adt" and end[1][2] == "Return"
                      and end[1][4][0][1] == ("param", 3) and isinstance(d, int)
                      and d < len(variants) and ws.get(lx("__state")) is not None
                      and ws[lx("__state")][0] == "int"
                      and ws[lx("__state")][1] == seen.get(variants[d])
                      and ws.get(lx("__initial_state")) == ws[lx("__state")])
                self.ob("P7", "switch_and_return = switch + Return(token)", ok,
                        inst="sar:%r" % (d,), where=b2["span"])

    # ------------------------------------------------------------------ P8
    def p8(self):
        L = self.L
        n = 0
        for s in L.segs:
            for e in s.events:
                if e[0] == "ctx":
                    n += 1
                    ok = e[2] == pure("clone", (EL("__iter"),))
                    self.ob("P8", "right context %d runs on a clone of the remaining input" % e[1],
                            ok, inst="ctx-arg:%d" % e[1], where=self.where(s),
                            detail=repr(e[2])[:200])
        for idx, b in sorted(self.exp.ctx_fns().items()):
            from .lts import ctx_fn_shape
            ok = (b["sig_out"] == "bool" and (b["sig_in"] == ["I"] or
                                              (b["sig_in"] == ["&I"] and ctx_fn_shape(b)[0] == "ref")))
            self.ob("P8", "context function %d works on a private copy of the iterator (taken by value, or "
                    "cloned from the reference it is given before anything else) and returns bool" % idx,
                    ok, inst="ctx-sig:%d" % idx, where=b["span"],
                    detail={"in": b["sig_in"], "out": b["sig_out"]})
        self.ctx.count("right_context_tests", n)

    # ------------------------------------------------------------------ P9
    def p9(self):
        L = self.L
        for s in L.segs:
            w = self.where(s)
            for e, stack in events_with_stack(s.events):
                if e[0] in ("call", "havoc", "inline-failed"):
                    self.ob("P9", "template code calls only modelled functions (found %s)" % (e[1],),
                            False, inst="unknown:%s" % (e[1],), where=w)
                elif e[0] == "enter":
                    name = norm_path(e[1] or "?")
                    if name.startswith("Lexer::"):
                        self.ob("P9", "template code calls runtime method %s" % name,
                                name in ALLOWED_RT_IN_NEXT, inst="rt:" + name, where=w)
                elif e[0] == "write" and e[1] == SELF and not stack:
                    path, v = e[2], e[3]
                    ok = False
                    if path == lx("__done"):
                        ok = v == ("int", 1, "bool") and s.start[0] == "read" and s.start[2] == "None"
                    elif path == lx("__state"):
                        ok = v[0] == "int" or (v[0] == "post-action" and v[2] == lx("__initial_state"))
                        if v[0] == "int" and not (0 <= v[1] < L.n_states):
                            ok = False
                    elif path == lx("__initial_state"):
                        ok = v == ("int", 0, "usize") and s.kind == "fail-direct"
                    self.ob("P9", "template writes lexer field %s only as the protocol allows" %
                            ".".join(path[1:]), ok, inst="write:%s" % ".".join(path[1:]), where=w,
                            detail=repr(v)[:120])
            for k, v in s.st.facts.items():
                if k[0] not in ("discr", "ctxres", "entry") and not (
                        k[0] == "entry"):
                    self.ob("P9", "branch on a value the analysis cannot interpret", False,
                            inst="branch:%s" % k[0], where=w, detail=repr(k)[:200])

    # ------------------------------------------------------------------ R-NAMES
    def rnames(self):
        exp = self.exp
        n = 0
        for it in exp.items:
            n += 1
            self.ob("R-NAMES", "generated item `%s` is prefixed with the lexer's name" % it["name"],
                    it["name"].startswith(exp.name), inst="item:" + it["name"],
                    detail="two lexers in one module would both define `%s`" % it["name"])
        self.ctx.count("generated_items", n)

    def run(self, rules):
        if self.L is not None:
            self.structural()
        for r in rules:
            getattr(self, r)()


# ---------------------------------------------------------------------- R-BSEARCH
ORDERINGS = [
    # name, rank of (c, start, end), expected
    ("c<start<end", (0, 1, 2), "Greater"),
    ("c<start=end", (0, 1, 1), "Greater"),
    ("c=start<end", (1, 1, 2), "Equal"),
    ("c=start=end", (1, 1, 1), "Equal"),
    ("start<c<end", (1, 0, 2), "Equal"),
    ("start<c=end", (1, 0, 1), "Equal"),
    ("start<end<c", (2, 0, 1), "Less"),
    ("start=end<c", (1, 0, 0), "Less"),
]
ORD_VI = {"Less": 255, "Equal": 0, "Greater": 1}   # discriminant values of std::cmp::Ordering (i8)


def check_bsearch(ctx, prog, exp):
    """Returns True if the table-search helper of this expansion may be modelled as membership."""
    helper = exp.bsearch()
    tables = [s for s in exp.statics.values()]
    if helper is None:
        ctx.ob("R-BSEARCH", "%s: no search tables and no helper" % exp.id, not tables,
               key="R-BSEARCH:%s:orphan-tables" % exp.id, where=exp.span)
        return not tables
    ok_all = True
    # comparator closure
    clos = [b for p, b in exp.crate.by_norm.items() if p.startswith(norm_path(helper["path"]) + "::{closure")]
    clos = [b for bs in clos for b in bs]
    if not ctx.ob("R-BSEARCH", "%s: helper has exactly one comparator closure" % exp.id,
                  len(clos) == 1, key="R-BSEARCH:%s:closure" % exp.id, where=helper["span"]):
        return False
    cb = clos[0]
    for name, (rc, rs, re_), expected in ORDERINGS:
        rank = {"c": rc, "s": rs, "e": re_}

        def sym_of(v, st=None, eng=None):
            seen = 0
            while v[0] == "ref" and seen < 4:
                v = eng.read(st, v[1], v[2])
                seen += 1
            return v[1] if v[0] == "symchar" else None

        def models(eng, st, c):
            n = c.callee or ""
            if n.endswith("::cmp") and len(c.args) == 2:
                a, b = sym_of(c.args[0], st, eng), sym_of(c.args[1], st, eng)
                if a and b:
                    r = (rank[a] > rank[b]) - (rank[a] < rank[b])
                    nm = {-1: "Less", 0: "Equal", 1: "Greater"}[r]
                    return [(st, ("adt", "std::cmp::Ordering", nm, ORD_VI[nm], ()))]
            m = re.search(r"::(le|lt|ge|gt|eq|ne)$", n)
            if m and len(c.args) == 2:
                a, b = sym_of(c.args[0], st, eng), sym_of(c.args[1], st, eng)
                if a and b:
                    x, y = rank[a], rank[b]
                    r = {"le": x <= y, "lt": x < y, "ge": x >= y, "gt": x > y, "eq": x == y,
                         "ne": x != y}[m.group(1)]
                    return [(st, ("int", int(r), "bool"))]
            return None

        def on_switch(eng, st, v, t, b):
            if v[0] == "bin" and v[1] in ("Eq", "Ne", "Lt", "Le", "Gt", "Ge"):
                a, bb = sym_of(v[2], st, eng), sym_of(v[3], st, eng)
                if a and bb:
                    x, y = rank[a], rank[bb]
                    r = {"Le": x <= y, "Lt": x < y, "Ge": x >= y, "Gt": x > y, "Eq": x == y,
                         "Ne": x != y}[v[1]]
                    for val, tgt in t["arms"]:
                        if val == int(r):
                            return [(tgt, st)]
                    return [(t["else"], st)]
            return None

        eng = Engine(cb, models=models, on_switch=on_switch)
        st = Path()
        # closure env: captures c (by reference); argument: &(char, char)
        env_ty = cb["mir"]["locals"][1]
        cref = ("ref", ("sym", "c"), ())
        st.set_cell(("sym", "c"), (), ("symchar", "c"))
        st.set_cell(("sym", "pair"), (), ("tuple", (("symchar", "s"), ("symchar", "e"))))
        closure_val = ("closure", cb["path"], (cref,))
        if env_ty.startswith("&"):
            st.set_cell(("sym", "env"), (), closure_val)
            eng.write(st, 1, (), ("ref", ("sym", "env"), ()), quiet=True)
        else:
            eng.write(st, 1, (), closure_val, quiet=True)
        eng.write(st, 2, (), ("ref", ("sym", "pair"), ()), quiet=True)
        res = eng.run(0, st)
        got = None
        if len(res) == 1 and res[0][1][0] == "RETURN":
            r = res[0][1][1]
            unknown = [e for e in res[0][0].events if e[0] in ("call", "havoc")]
            if r[0] == "adt" and r[1] == "std::cmp::Ordering" and not unknown:
                got = r[2]
        ok = ctx.ob("R-BSEARCH", "%s: comparator returns %s when %s" % (exp.id, expected, name),
                    got == expected, key="R-BSEARCH:%s:cmp:%s" % (exp.id, name), where=cb["span"],
                    detail={"returned": got, "paths": len(res)})
        ok_all = ok_all and ok
    # the helper itself: binary_search_by(table, closure(c)).is_ok()
    eng = Engine(helper, models=StdModels())
    res = eng.run(0, Path())
    shape = False
    if len(res) == 1 and res[0][1][0] == "RETURN":
        r = res[0][1][1]
        calls = [e for e in res[0][0].events if e[0] == "call"]
        names = [norm_path(str(e[1])) for e in calls]
        shape = (len(calls) == 2 and names[0].endswith("binary_search_by")
                 and names[1].endswith("Result::is_ok") and r[0] == "call"
                 and norm_path(str(r[1])).endswith("Result::is_ok")
                 and calls[0][2][0] == ("param", 2)
                 and calls[0][2][1][0] == "closure" and calls[0][2][1][2] in (
                     (("ref", 1, ()),), (("param", 1),)))
    ok = ctx.ob("R-BSEARCH", "%s: helper is `table.binary_search_by(cmp(c)).is_ok()`" % exp.id,
                shape, key="R-BSEARCH:%s:shape" % exp.id, where=helper["span"])
    ok_all = ok_all and ok
    for s in tables:
        pairs = table_set(s)
        good = pairs is not None and len(pairs) > 0
        if good:
            for i, (a, b) in enumerate(pairs):
                if a > b or (i > 0 and pairs[i - 1][1] >= a):
                    good = False
            good = good and ivl.scalar_pairs_ok(pairs)
        ok = ctx.ob("R-BSEARCH", "%s: table %s is sorted, disjoint, non-empty and scalar-valued" % (
            exp.id, s["path"]), good, key="R-BSEARCH:%s:table:%s" % (exp.id, s["path"].rsplit("::", 1)[-1]),
            where=s["span"])
        ok_all = ok_all and ok
    ctx.count("search_tables", len(tables))
    return ok_all


def analyse_expansion(ctx, prog, exp, rules, want=None, cache=None):
    """Extract the LTS of one expansion and run the named rules."""
    tables_ok = check_bsearch(ctx if (want is None or "R-BSEARCH" in want) else _Quiet(ctx), prog, exp)
    L = LTS(exp, prog, tables_ok=tables_ok)
    g = GenRules(ctx, prog, exp, L, want)
    g.run(rules)
    return L, g


class _Quiet(object):
    """Runs obligations without recording them (rule result needed only as a precondition)."""

    def __init__(self, ctx):
        self.ctx = ctx

    def ob(self, rule, desc, ok, **kw):
        return ok

    def count(self, *a, **k):
        pass


ALL_RULES = ["p1", "p2", "p3p4", "p7", "p5", "p6", "rsaved", "progress", "p8", "p9", "rnames"]
