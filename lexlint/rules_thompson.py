"""R-THOMPSON, R-CLASSDISPATCH, R-PRIM: the regex -> NFA stage decided for all definitions by
structural induction over `ast::Regex`.

`regex_to_nfa::add_re(nfa, bindings, re, current, cont)` is a `match` with one arm per variant. For
every arm the rule extracts, from the MIR, the builder calls the arm makes and where their
arguments come from (def-use terms: parameter, fresh state, field of `re`, result of a call), and
checks

  (1) interface discipline: no edge the arm adds (directly or through a recursive call) enters
      `current` or leaves `cont`, every state it mentions is `current`, `cont` or a state the arm
      created itself, and the two ends of every recursive call are different terms;
  (2) local language: with each recursive call `add_re(.., sub_i, a, b)` read as one edge a -R_i-> b,
      the words from `current` to `cont` over the alphabet {R_0, R_1} are exactly the variant's
      documented language (R0*, R0 R0*, R0|eps, R0 R1, R0|R1); decided by determinising the
      (at most four-state) template and the expected expression and comparing them.

(1) makes every recursive call behave as a single edge in its caller's graph whatever else is
attached to its ends (no path can re-enter the fragment except through its start, or leave it
except through its end), so (2) composes: by induction on the regex the fragment built between
`current` and `cont` spells exactly L(re). Leaves (`Char`, `_`, `$`, classes) are checked as a single
builder call from `current` to `cont` carrying the variant's own payload; the two loops (`String`,
`CharSet`) by the origin of every argument of the calls inside them.

The deciding step is a def-use analysis plus automata equivalence on templates; nothing is run.
"""
import re as _re

from . import cfg
from .rules_src import LEX, norm_path, true_edge_dominates

ROLES_ADD_RE = {1: "nfa", 2: "bindings", 3: "re", 4: "current", 5: "cont"}
ROLES_R2RM = {1: "bindings", 2: "re"}

BOX_FIELDS = ("std::boxed::Box", "std::ptr::Unique", "std::ptr::NonNull")


class Sym(object):
    """Def-use terms for the locals of one MIR body."""

    def __init__(self, body, roles):
        self.body = body
        self.blocks = body["mir"]["blocks"]
        self.roles = roles
        self.defs = {}
        for bi, bb in enumerate(self.blocks):
            if bb["cleanup"]:
                continue
            for st in bb["st"]:
                if "lhs" in st and not st["lhs"]["p"]:
                    self.defs.setdefault(st["lhs"]["l"], []).append(("st", st["rv"], bi))
            t = bb["term"]
            if t["k"] == "call" and not t["dest"]["p"]:
                self.defs.setdefault(t["dest"]["l"], []).append(("call", t, bi))
        self.memo = {}

    def operand(self, o, seen=()):
        if "int" in o:
            return ("const", o["int"])
        if "copy" in o or "move" in o:
            return self.place(o.get("copy") or o.get("move"), seen)
        if "const" in o or "fn" in o:
            return ("const", repr(o.get("const") or o.get("fn"))[:80])
        return ("const", repr(o)[:80])

    def place(self, pl, seen=()):
        base = self.local(pl["l"], seen)
        path = []
        for e in pl["p"]:
            if e == "*":
                continue
            if isinstance(e, dict) and "as" in e:
                path.append(("as", e["as"]))
            elif isinstance(e, dict) and "f" in e:
                if e["f"].startswith(BOX_FIELDS):
                    continue
                path.append(("f", e["i"]))
            else:
                path.append(("?", repr(e)))
        if not path:
            return base
        if base[0] == "path":
            return ("path", base[1], base[2] + tuple(path))
        return ("path", base, tuple(path))

    def local(self, l, seen=()):
        if l in self.roles:
            return ("param", self.roles[l])
        if l in self.memo:
            return self.memo[l]
        if l in seen:
            return ("loop", l)
        seen = seen + (l,)
        ds = self.defs.get(l, [])
        out = []
        for kind, d, bi in ds:
            if kind == "call":
                c = norm_path(d.get("resp") or d["f"].get("path")) or "?"
                if c.endswith("NFA::new_state"):
                    out.append(("new", bi))
                else:
                    out.append(("call", c, bi, tuple(self.operand(a, seen) for a in d["args"])))
            else:
                k = d["k"]
                if k == "use":
                    out.append(self.operand(d["o"], seen))
                elif k == "ref":
                    out.append(self.place(d["p"], seen))
                elif k == "cast":
                    out.append(self.operand(d["o"], seen))
                elif k == "agg":
                    out.append(("agg", repr(d.get("kind"))[:60], tuple(self.operand(a, seen) for a in d["ops"])))
                elif k == "discr":
                    out.append(("discr", self.place(d["p"], seen)))
                else:
                    out.append(("op", k))
        if not out:
            r = ("undef", l)
        elif len(set(out)) == 1:
            r = out[0]
        else:
            r = ("phi", frozenset(out))
        if not any(_has_loop(x) for x in out):
            self.memo[l] = r
        return r


def _has_loop(t):
    if isinstance(t, tuple):
        if t and t[0] == "loop":
            return True
        return any(_has_loop(x) for x in t)
    if isinstance(t, frozenset):
        return any(_has_loop(x) for x in t)
    return False


def contains(term, pred):
    if pred(term):
        return True
    if isinstance(term, (tuple, frozenset)):
        return any(contains(x, pred) for x in term)
    return False


def show(t):
    if not isinstance(t, tuple):
        if isinstance(t, frozenset):
            return "{" + ", ".join(sorted(show(x) for x in t)) + "}"
        return str(t)
    if t[0] == "param":
        return t[1]
    if t[0] == "new":
        return "new@bb%d" % t[1]
    if t[0] == "path":
        return show(t[1]) + "".join((" as %s" % p[1]) if p[0] == "as" else ".%s" % p[1] for p in t[2])
    if t[0] == "call":
        return "%s(%s)" % (t[1].rsplit("::", 1)[-1], ", ".join(show(a) for a in t[3]))
    if t[0] == "phi":
        return "phi" + show(t[1])
    if t[0] == "const":
        return str(t[1])
    return repr(t)


def sub_of(term, variant):
    """i if `term` is field i of `re as variant`, else None."""
    if term[0] == "path" and term[1] == ("param", "re") and len(term[2]) == 2 and \
            term[2][0] == ("as", variant) and term[2][1][0] == "f":
        return term[2][1][1]
    return None


def arms_of(body, re_local):
    """{discriminant value: entry block} for the `match *re` at the top, plus per-arm private blocks."""
    blocks = body["mir"]["blocks"]
    sw = None
    for bi, bb in enumerate(blocks):
        t = bb["term"]
        if t["k"] == "switch":
            d = t["d"].get("move") or t["d"].get("copy")
            for st in bb["st"]:
                if "lhs" in st and d is not None and st["lhs"]["l"] == d["l"] and st["rv"]["k"] == "discr" \
                        and st["rv"]["p"]["l"] == re_local:
                    sw = t
            if sw:
                break
    if sw is None:
        return None, None
    entries = {v: tg for v, tg in sw["arms"]}
    reach = {}
    for v, e in entries.items():
        seen = set()
        work = [e]
        while work:
            b = work.pop()
            if b in seen or b is None or b < 0 or b >= len(blocks) or blocks[b]["cleanup"]:
                continue
            seen.add(b)
            t = blocks[b]["term"]
            k = t["k"]
            if k == "goto":
                work.append(t["t"])
            elif k == "switch":
                work.extend(tg for _, tg in t["arms"])
                work.append(t["else"])
            elif k in ("call", "assert", "drop"):
                if t.get("t") is not None:
                    work.append(t["t"])
        reach[v] = seen
    count = {}
    for v, s in reach.items():
        for b in s:
            count[b] = count.get(b, 0) + 1
    private = {v: sorted(b for b in s if count[b] == 1) for v, s in reach.items()}
    return entries, private


def arm_calls(sym, blocks_of_arm):
    out = []
    for bi in blocks_of_arm:
        t = sym.blocks[bi]["term"]
        if t["k"] == "call":
            c = norm_path(t.get("resp") or t["f"].get("path")) or "?"
            out.append((bi, c, tuple(sym.operand(a) for a in t["args"]), t))
    return out


# --------------------------------------------------------------------------- template languages
def _closure(states, eps):
    out = set(states)
    work = list(states)
    while work:
        s = work.pop()
        for t in eps.get(s, ()):
            if t not in out:
                out.add(t)
                work.append(t)
    return frozenset(out)


def nfa_lang_equal(n1, n2, alphabet):
    """n = (start, final, eps {s: set}, edges {(s, sym): set}); language equality by lock-step
    determinisation."""
    def step(n, S, a):
        nxt = set()
        for s in S:
            nxt |= n[3].get((s, a), set())
        return _closure(nxt, n[2])
    s1 = _closure({n1[0]}, n1[2])
    s2 = _closure({n2[0]}, n2[2])
    seen = set()
    work = [(s1, s2, ())]
    while work:
        a, b, w = work.pop()
        if (a, b) in seen:
            continue
        seen.add((a, b))
        if (n1[1] in a) != (n2[1] in b):
            return False, w
        for x in alphabet:
            work.append((step(n1, a, x), step(n2, b, x), w + (x,)))
    return True, None


def expected_template(variant):
    """Reference fragment for a composite variant over symbols 0 (first sub-regex), 1 (second)."""
    S, F = "s", "f"
    if variant == "ZeroOrMore":      # R0*
        return (S, F, {S: {"m"}, "m": {F}}, {("m", 0): {"m"}}), (0,)
    if variant == "OneOrMore":       # R0 R0*
        return (S, F, {"m": {F}}, {(S, 0): {"m"}, ("m", 0): {"m"}}), (0,)
    if variant == "ZeroOrOne":       # R0 | eps
        return (S, F, {S: {F}}, {(S, 0): {F}}), (0,)
    if variant == "Concat":          # R0 R1
        return (S, F, {}, {(S, 0): {"m"}, ("m", 1): {F}}), (0, 1)
    if variant == "Or":              # R0 | R1
        return (S, F, {}, {(S, 0): {F}, (S, 1): {F}}), (0, 1)
    return None, None


COMPOSITE = ("ZeroOrMore", "OneOrMore", "ZeroOrOne", "Concat", "Or")
CURRENT = ("param", "current")
CONT = ("param", "cont")


def is_state_term(t):
    return t in (CURRENT, CONT) or t[0] == "new"


# --------------------------------------------------------------------------- the rules
def check_rthompson(ctx, prog):
    lex = prog.crate(LEX)
    body = lex.body("regex_to_nfa::add_re")
    adt = lex.adt("ast::Regex")
    if not ctx.ob("R-THOMPSON", "regex_to_nfa::add_re and ast::Regex found", body is not None and adt is not None,
                  key="R-THOMPSON:anchor"):
        return
    ctx.ob("R-THOMPSON", "add_re takes (nfa, bindings, re, current, cont)", body["mir"]["argc"] == 5,
           key="R-THOMPSON:arity", where=body["span"])
    variants = [v["name"] for v in adt["variants"]]
    sym = Sym(body, ROLES_ADD_RE)
    entries, private = arms_of(body, 3)
    if not ctx.ob("R-THOMPSON", "add_re dispatches on the variant of `re`", entries is not None,
                  key="R-THOMPSON:dispatch", where=body["span"]):
        return
    handled = 0
    templates = {}
    for idx, vname in enumerate(variants):
        key = "R-THOMPSON:%s" % vname
        if idx not in entries:
            ctx.ob("R-THOMPSON", "variant %s has its own arm in add_re" % vname, False, key=key + ":arm",
                   where=body["span"], detail="a shared `otherwise` arm cannot be checked per variant")
            continue
        handled += 1
        calls = arm_calls(sym, private[idx])
        where = sym.blocks[entries[idx]].get("span")
        builder = [(bi, c, a) for bi, c, a, t in calls if c.startswith("nfa::NFA::") and not c.endswith("new_state")]
        rec = [(bi, c, a) for bi, c, a, t in calls if c == "regex_to_nfa::add_re"]
        # every builder call and recursive call works on the same automaton
        for bi, c, a in builder + rec:
            ctx.ob("R-THOMPSON", "%s: %s is applied to the automaton passed in" % (vname, c.rsplit("::", 1)[-1]),
                   a[0] == ("param", "nfa"), key=key + ":nfa", where=where)
        for bi, c, a in rec:
            ctx.ob("R-THOMPSON", "%s: the recursive call passes the same bindings" % vname,
                   a[1] == ("param", "bindings"), key=key + ":bindings", where=where)
        if vname in COMPOSITE:
            templates[vname] = check_composite(ctx, vname, key, where, builder, rec)
        elif vname == "Var":
            ok = len(rec) == 1 and not builder and rec[0][2][3] == CURRENT and rec[0][2][4] == CONT
            ctx.ob("R-THOMPSON", "Var: the bound regex is built in place, between `current` and `cont` "
                   "(one recursive call, no shared fragment)", ok, key=key + ":shape", where=where,
                   detail=[(c, [show(x) for x in a]) for _, c, a in builder + rec])
            if rec:
                t = rec[0][2][2]
                looked = contains(t, is_binding_lookup)
                ctx.ob("R-THOMPSON", "Var: the regex built is `bindings[var]`", looked, key=key + ":lookup",
                       where=where, detail=show(t))
        elif vname in ("Char", "Any", "EndOfInput"):
            meth = {"Char": "add_char_transition", "Any": "add_any_transition",
                    "EndOfInput": "add_end_of_input_transition"}[vname]
            ok = len(builder) == 1 and not rec and builder[0][1].endswith("::" + meth) and \
                builder[0][2][1] == CURRENT and builder[0][2][-1] == CONT
            if ok and vname == "Char":
                ok = sub_of(builder[0][2][2], "Char") == 0
            ctx.ob("R-THOMPSON", "%s: exactly one %s(current, %scont)" % (
                vname, meth, "the character, " if vname == "Char" else ""), ok, key=key + ":shape",
                where=where, detail=[(c, [show(x) for x in a]) for _, c, a in builder + rec])
        elif vname in ("Builtin", "Diff"):
            ok = len(builder) == 1 and not rec and builder[0][1].endswith("::add_range_transitions") and \
                builder[0][2][1] == CURRENT and builder[0][2][3] == CONT
            ctx.ob("R-THOMPSON", "%s: exactly one add_range_transitions(current, class, cont)" % vname, ok,
                   key=key + ":shape", where=where,
                   detail=[(c, [show(x) for x in a]) for _, c, a in builder + rec])
            if ok:
                m = builder[0][2][2]
                if vname == "Diff":
                    good = m[0] == "call" and m[1] == "regex_to_nfa::regex_to_range_map" and \
                        m[3] == (("param", "bindings"), ("param", "re"))
                    ctx.ob("R-THOMPSON", "Diff: the class is regex_to_range_map(bindings, re) of the whole "
                           "`#` expression", good, key=key + ":class", where=where, detail=show(m))
                else:
                    good = class_of_builtin(m, "Builtin")
                    ctx.ob("R-THOMPSON", "Builtin: the class is the table found for the name "
                           "(get_builtin_regex(name).get_ranges())", good, key=key + ":class", where=where,
                           detail=show(m))
        elif vname == "String":
            check_string_arm(ctx, sym, key, where, builder, rec, private[idx])
        elif vname == "CharSet":
            check_charset_arm(ctx, sym, key, where, builder, rec, calls, private[idx], "add_re")
        else:
            ctx.ob("R-THOMPSON", "variant %s of ast::Regex is known to the rule" % vname, False, key=key + ":unknown",
                   where=where, detail="a new regex form: extend lexlint/rules_thompson.py with its language")
    ctx.floor("variants of ast::Regex with their own arm in add_re", handled, 13)
    check_composition(ctx, templates, body["span"])
    check_add_regex(ctx, lex)


def is_binding_lookup(x):
    """a call (get, index, ...) that takes the bindings map and the variable's name"""
    return isinstance(x, tuple) and len(x) == 4 and x[0] == "call" and len(x[3]) >= 2 and \
        x[3][0] == ("param", "bindings") and sub_of(x[3][1], "Var") == 0


def class_of_builtin(m, variant):
    has_lookup = contains(m, lambda x: isinstance(x, tuple) and len(x) == 4 and x[0] == "call"
                          and x[1] == "regex_to_nfa::get_builtin_regex" and sub_of(x[3][0], variant) == 0)
    has_ranges = contains(m, lambda x: isinstance(x, tuple) and len(x) == 4 and x[0] == "call"
                          and x[1].endswith("BuiltinCharRange::get_ranges"))
    ctor = m[0] == "call" and m[1].endswith("RangeMap::from_non_overlapping_sorted_ranges")
    return has_lookup and has_ranges and ctor


def check_composite(ctx, vname, key, where, builder, rec):
    edges = []      # (src, label, tgt) label: "eps" or sub index
    bad = []
    for bi, c, a in builder:
        if c.endswith("::add_empty_transition"):
            edges.append((a[1], "eps", a[2]))
        else:
            bad.append(c)
    for bi, c, a in rec:
        i = sub_of(a[2], vname)
        if i is None:
            bad.append("add_re on %s" % show(a[2]))
        else:
            edges.append((a[3], i, a[4]))
    desc = ["%s -%s-> %s" % (show(s), "eps" if l == "eps" else "R%d" % l, show(t)) for s, l, t in edges]
    ctx.ob("R-THOMPSON", "%s: the arm consists of empty transitions and recursive calls on the variant's "
           "own sub-regexes" % vname, not bad, key=key + ":calls", where=where, detail=bad)
    ok_states = all(is_state_term(s) and is_state_term(t) for s, l, t in edges)
    ctx.ob("R-THOMPSON", "%s: every edge runs between `current`, `cont` and states the arm created" % vname,
           ok_states, key=key + ":states", where=where, detail=desc)
    if not ok_states:
        return None
    into_current = [d for (s, l, t), d in zip(edges, desc) if t == CURRENT]
    out_of_cont = [d for (s, l, t), d in zip(edges, desc) if s == CONT]
    same_ends = [d for (s, l, t), d in zip(edges, desc) if l != "eps" and s == t]
    discipline = not into_current and not out_of_cont and not same_ends
    info = {"edges": edges, "desc": desc, "discipline": discipline,
            "why": {"into current": into_current, "out of cont": out_of_cont, "same ends": same_ends},
            "where": where}
    eps = {}
    tr = {}
    for s, l, t in edges:
        if l == "eps":
            eps.setdefault(s, set()).add(t)
        else:
            tr.setdefault((s, l), set()).add(t)
    exp, alphabet = expected_template(vname)
    eq, word = nfa_lang_equal((CURRENT, CONT, eps, tr), exp, alphabet)
    ctx.ob("R-THOMPSON", "%s: with recursive calls read as single edges, the words from `current` to `cont` "
           "are exactly the documented language of the operator" % vname, eq, key=key + ":language",
           where=where, detail={"edges": desc, "distinguishing word": ["R%d" % x for x in (word or ())]})
    ctx.count("composite arms of add_re decided by template equivalence")
    info["local"] = eq
    return info


OPS = {"ZeroOrMore": ("*", 1), "OneOrMore": ("+", 1), "ZeroOrOne": ("?", 1), "Concat": ("", 2), "Or": ("|", 2)}
EXPANSION_SIZE = 6


def trees(n, memo={}):
    """All regex trees with exactly n nodes over leaves a, b and the five operators."""
    if n in memo:
        return memo[n]
    out = []
    if n == 1:
        out = [("a",), ("b",)]
    else:
        for op, (_, ar) in OPS.items():
            if ar == 1:
                out += [(op, t) for t in trees(n - 1)]
            else:
                for k in range(1, n - 1):
                    out += [(op, l, r) for l in trees(k) for r in trees(n - 1 - k)]
    memo[n] = out
    return out


def tree_str(t):
    if len(t) == 1:
        return t[0]
    sym, ar = OPS[t[0]]
    if ar == 1:
        return "(%s)%s" % (tree_str(t[1]), sym)
    return "(%s%s%s)" % (tree_str(t[1]), " " if sym == "" else " | ", tree_str(t[2]))


def instantiate(tree, s, e, templates, g, fresh):
    """Add to graph g = (eps, edges) the fragment the templates build for `tree` between s and e."""
    if len(tree) == 1:
        g[1].setdefault((s, tree[0]), set()).add(e)
        return
    names = {CURRENT: s, CONT: e}
    for a, l, b in templates[tree[0]]:
        for x in (a, b):
            if x not in names:
                fresh[0] += 1
                names[x] = fresh[0]
    for a, l, b in templates[tree[0]]:
        if l == "eps":
            g[0].setdefault(names[a], set()).add(names[b])
        else:
            instantiate(tree[1 + l], names[a], names[b], templates, g, fresh)


def reference_templates():
    out = {}
    for v in COMPOSITE:
        (S, F, eps, tr), _ = expected_template(v)
        names = {S: CURRENT, F: CONT, "m": ("new", 0)}
        edges = []
        for a, ts in eps.items():
            edges += [(names[a], "eps", names[t]) for t in ts]
        for (a, l), ts in tr.items():
            edges += [(names[a], l, names[t]) for t in ts]
        out[v] = edges
    # the reference keeps sub-fragments apart with fresh states around every operand
    fresh = {}
    for v, edges in out.items():
        new = []
        k = 10
        for a, l, b in edges:
            if l == "eps":
                new.append((a, l, b))
            else:
                k += 2
                new += [(a, "eps", ("new", k)), (("new", k), l, ("new", k + 1)), (("new", k + 1), "eps", b)]
        fresh[v] = new
    return fresh


def check_composition(ctx, templates, where):
    """Induction step or, failing that, bounded composition of the extracted templates."""
    if any(templates.get(v) is None for v in COMPOSITE):
        ctx.notes.append("R-THOMPSON: composition not examined (an operator's arm has no usable template)")
        return
    disciplined = all(templates[v]["discipline"] for v in COMPOSITE)
    local = all(templates[v]["local"] for v in COMPOSITE)
    if disciplined and local:
        ctx.ob("R-THOMPSON", "induction: every operator's fragment can be entered only at `current` and left only "
               "at `cont` (no edge into `current`, none out of `cont`, distinct ends for recursive calls), so "
               "each recursive call acts as one edge in its caller and the per-operator language results "
               "compose for regexes of any depth", True, key="R-THOMPSON:induction", where=where)
    ext = {v: templates[v]["edges"] for v in COMPOSITE}
    ref = reference_templates()
    n = 0
    bad = None
    for size in range(1, EXPANSION_SIZE + 1):
        for t in trees(size):
            g1 = ({}, {})
            g2 = ({}, {})
            instantiate(t, "S", "E", ext, g1, [0])
            instantiate(t, "S", "E", ref, g2, [0])
            eq, word = nfa_lang_equal(("S", "E", g1[0], g1[1]), ("S", "E", g2[0], g2[1]), ("a", "b"))
            n += 1
            if not eq:
                bad = (t, word)
                break
        if bad:
            break
    ctx.count("regex trees (<= %d nodes, 5 operators, 2 leaves) on which the extracted templates were composed" % EXPANSION_SIZE, n)
    detail = None
    if bad:
        detail = {"regex": tree_str(bad[0]), "word on which the built automaton and the documented language differ":
                  "".join(bad[1]) or "(empty)",
                  "operators whose fragment is not closed": {v: templates[v]["why"] for v in COMPOSITE
                                                             if not templates[v]["discipline"]}}
    ctx.ob("R-THOMPSON", "the operators' fragments, composed as add_re composes them, give the documented "
           "language for every regex tree of up to %d nodes" % EXPANSION_SIZE, bad is None,
           key="R-THOMPSON:composition", where=where, detail=detail)
    if not disciplined and bad is None:
        ctx.notes.append("R-THOMPSON: an operator's fragment is not closed (%s); the induction argument does not "
                         "apply, composition was established for trees of up to %d nodes only" % (
                             ", ".join(v for v in COMPOSITE if not templates[v]["discipline"]), EXPANSION_SIZE))


def check_string_arm(ctx, sym, key, where, builder, rec, arm_blocks):
    ok_calls = bool(builder) and not rec and all(c.endswith("::add_char_transition") for _, c, a in builder)
    ctx.ob("R-THOMPSON", "String: the arm adds character transitions only", ok_calls, key=key + ":calls",
           where=where, detail=[c for _, c, a in builder + rec])
    if not ok_calls:
        return
    for bi, c, a in builder:
        src, ch, tgt = a[1], a[2], a[3]
        from_iter = contains(ch, lambda x: isinstance(x, tuple) and len(x) == 4 and x[0] == "call" and
                             _re.search(r"Iterator>::next$", x[1]) is not None)
        from_str = contains(ch, lambda x: x == ("path", ("param", "re"), (("as", "String"), ("f", 0))))
        ctx.ob("R-THOMPSON", "String: the label of each transition is a character taken from the string's "
               "own iterator", from_iter and from_str, key=key + ":label", where=where, detail=show(ch))
        ctx.ob("R-THOMPSON", "String: the chain starts at `current` (the source is `current` or the previous "
               "transition's target)", contains(src, lambda x: x == CURRENT), key=key + ":source", where=where,
               detail=show(src))
        ctx.ob("R-THOMPSON", "String: the chain can end at `cont` (the target is a fresh state or `cont`)",
               contains(tgt, lambda x: x == CONT) and contains(tgt, lambda x: isinstance(x, tuple) and x[:1] == ("new",)),
               key=key + ":target", where=where, detail=show(tgt))
        ctx.ob("R-THOMPSON", "String: no transition enters `current`",
               not contains(tgt, lambda x: x == CURRENT), key=key + ":interface", where=where, detail=show(tgt))
        # last-character test: `cont` is chosen exactly when the iterator has no further character
        blocks = sym.blocks
        recognised = False
        for b in arm_blocks:
            t = blocks[b]["term"]
            if t["k"] != "switch" or len(t["arms"]) != 1 or t["arms"][0][0] != 0:
                continue
            d = t["d"].get("move") or t["d"].get("copy")
            if d is None:
                continue
            cond = sym.local(d["l"])
            if cond[0] == "call" and cond[1].endswith("Option::is_some") and \
                    contains(cond, lambda x: isinstance(x, tuple) and len(x) == 4 and x[0] == "call"
                             and x[1].endswith("Peekable::peek")):
                false_b, true_b = t["arms"][0][1], t["else"]
                f_cont = any("lhs" in st and st["rv"]["k"] == "use" and sym.operand(st["rv"]["o"]) == CONT
                             for st in blocks[false_b]["st"])
                tt = blocks[true_b]["term"]
                t_new = tt["k"] == "call" and (norm_path(tt.get("resp") or tt["f"].get("path")) or "").endswith("NFA::new_state")
                if f_cont and t_new:
                    recognised = True
        if recognised:
            ctx.ob("R-THOMPSON", "String: `cont` is the target exactly when the iterator has no further "
                   "character (peek().is_some() selects a fresh state, otherwise `cont`)", True,
                   key=key + ":last", where=where)
        else:
            ctx.notes.append("R-THOMPSON String: the last-character test is not in the peek() shape; that clause "
                             "is decided on witnesses only")


def check_charset_arm(ctx, sym, key, where, builder, rec, calls, arm_blocks, fn):
    """Every transition inside the loop over the set's items goes from `current` to `cont` and is
    labelled with the item's own payload."""
    ok_calls = bool(builder) and not rec and all(
        c.endswith("::add_char_transition") or c.endswith("::add_range_transition") for _, c, a in builder)
    ctx.ob("R-THOMPSON", "CharSet: the arm adds character and range transitions only", ok_calls,
           key=key + ":calls", where=where, detail=[c for _, c, a in builder + rec])
    if not ok_calls:
        return
    kinds = set()
    for bi, c, a in builder:
        ctx.ob("R-THOMPSON", "CharSet: each transition runs from `current` to `cont`",
               a[1] == CURRENT and a[-1] == CONT, key=key + ":ends", where=where,
               detail=[show(x) for x in a])
        if c.endswith("::add_char_transition"):
            kinds.add("Char")
            ok = item_field(a[2], "Char") == 0
            ctx.ob("R-THOMPSON", "CharSet: a single character item is added as that character", ok,
                   key=key + ":char", where=where, detail=show(a[2]))
        else:
            kinds.add("Range")
            ok = item_field(a[2], "Range") == 0 and item_field(a[3], "Range") == 1
            ctx.ob("R-THOMPSON", "CharSet: a range item is added as (start, end) in that order", ok,
                   key=key + ":range", where=where, detail=[show(a[2]), show(a[3])])
    # add_char_transition panics on a repeated (state, char, next); a set may repeat a character
    loops, dom, preds = cfg.natural_loops(sym.blocks)
    for bi, c, a in builder:
        if c.endswith("::add_char_transition"):
            guards = [gb for gb, gc, ga, gt in calls if gc.endswith("HashSet::insert") and ga[1] == a[2]]
            ctx.ob("R-THOMPSON", "CharSet: a repeated character is added once (the transition is guarded by "
                   "`seen.insert(c)` being true; NFA::add_char_transition asserts that the edge is new)",
                   any(true_edge_dominates(sym.blocks, dom, g, bi) for g in guards), key=key + ":dedupe",
                   where=where)
    ctx.ob("R-THOMPSON", "CharSet: both kinds of item (character, range) are added", kinds == {"Char", "Range"},
           key=key + ":kinds", where=where, detail=sorted(kinds))
    # the items come from the set's own list
    src_ok = False
    for bi, c, a, t in calls:
        if _re.search(r"(IntoIterator>::into_iter|::iter)$", c) and contains(
                a[0], lambda x: isinstance(x, tuple) and x[:2] == ("path", ("param", "re")) and x[2][0] == ("as", "CharSet")):
            src_ok = True
    ctx.ob("R-THOMPSON", "CharSet: the loop runs over the set's own items", src_ok, key=key + ":items", where=where)


def item_field(term, variant):
    """field index if `term` is `<item> as variant . i` where item comes from an iterator's next()."""
    if term[0] == "path" and len(term[2]) >= 2 and term[2][-2] == ("as", variant) and term[2][-1][0] == "f":
        base = ("path", term[1], term[2][:-2]) if len(term[2]) > 2 else term[1]
        if contains(base, lambda x: isinstance(x, tuple) and len(x) == 4 and x[0] == "call"
                    and _re.search(r"Iterator>::next$", x[1]) is not None):
            return term[2][-1][1]
    return None


def check_add_regex(ctx, lex):
    """The top of the induction: NFA::add_regex builds the rule's regex between two different fresh
    states, the second of which it makes accepting, and links the automaton's initial state to the
    first by an empty transition."""
    b = lex.body("nfa::NFA::add_regex")
    if not ctx.ob("R-THOMPSON", "NFA::add_regex found", b is not None, key="R-THOMPSON:add_regex:anchor"):
        return
    roles = {1: "nfa", 2: "bindings", 3: "re", 4: "right_ctx", 5: "value"}
    sym = Sym(b, roles)
    calls = []
    for bi, bb in enumerate(sym.blocks):
        if bb["cleanup"]:
            continue
        t = bb["term"]
        if t["k"] == "call":
            c = norm_path(t.get("resp") or t["f"].get("path")) or "?"
            calls.append((bi, c, tuple(sym.operand(a) for a in t["args"])))
    rec = [x for x in calls if x[1] == "regex_to_nfa::add_re"]
    acc = [x for x in calls if x[1].endswith("NFA::make_state_accepting")]
    eps = [x for x in calls if x[1].endswith("NFA::add_empty_transition")]
    ok = len(rec) == 1 and len(acc) == 1 and len(eps) == 1
    ctx.ob("R-THOMPSON", "add_regex: one add_re, one make_state_accepting, one empty transition", ok,
           key="R-THOMPSON:add_regex:calls", where=b["span"], detail=[c for _, c, a in calls])
    if not ok:
        return
    a = rec[0][2]
    s, e = a[3], a[4]
    ctx.ob("R-THOMPSON", "add_regex: the regex is built between two different fresh states",
           s[0] == "new" and e[0] == "new" and s != e, key="R-THOMPSON:add_regex:fresh", where=b["span"],
           detail=[show(s), show(e)])
    ctx.ob("R-THOMPSON", "add_regex: the end state of the fragment is the state made accepting (with the "
           "rule's value and right context)", acc[0][2][1] == e and acc[0][2][2] == ("param", "value")
           and acc[0][2][3] == ("param", "right_ctx"), key="R-THOMPSON:add_regex:accepting", where=b["span"],
           detail=[show(x) for x in acc[0][2]])
    init = eps[0][2][1]
    ctx.ob("R-THOMPSON", "add_regex: the automaton's initial state is linked to the start of the fragment by an "
           "empty transition", eps[0][2][2] == s and init[0] == "call" and init[1].endswith("NFA::initial_state"),
           key="R-THOMPSON:add_regex:link", where=b["span"], detail=[show(x) for x in eps[0][2]])
    ctx.ob("R-THOMPSON", "add_regex: the regex and bindings passed on are the rule's own",
           a[1] == ("param", "bindings") and a[2] == ("param", "re") and a[0] == ("param", "nfa"),
           key="R-THOMPSON:add_regex:args", where=b["span"])


# --------------------------------------------------------------------------- class algebra dispatch
def check_rclassdispatch(ctx, prog):
    """regex_to_range_map: per variant, which class operation is applied to which operand."""
    lex = prog.crate(LEX)
    body = lex.body("regex_to_nfa::regex_to_range_map")
    adt = lex.adt("ast::Regex")
    if not ctx.ob("R-CLASS", "regex_to_nfa::regex_to_range_map found", body is not None and adt is not None,
                  key="R-CLASS:anchor"):
        return
    variants = [v["name"] for v in adt["variants"]]
    sym = Sym(body, ROLES_R2RM)
    entries, private = arms_of(body, 2)
    if not ctx.ob("R-CLASS", "regex_to_range_map dispatches on the variant of `re`", entries is not None,
                  key="R-CLASS:dispatch", where=body["span"]):
        return
    blocks = sym.blocks

    def returned(idx):
        """terms assigned to the return place inside the arm"""
        out = []
        for bi in private[idx]:
            for st in blocks[bi]["st"]:
                if "lhs" in st and st["lhs"]["l"] == 0 and not st["lhs"]["p"]:
                    rv = st["rv"]
                    if rv["k"] == "use":
                        out.append(sym.operand(rv["o"]))
            t = blocks[bi]["term"]
            if t["k"] == "call" and t["dest"]["l"] == 0 and not t["dest"]["p"]:
                c = norm_path(t.get("resp") or t["f"].get("path")) or "?"
                out.append(("call", c, bi, tuple(sym.operand(a) for a in t["args"])))
        return out

    def rec_on(term, variant, i):
        return term[0] == "call" and term[1] == "regex_to_nfa::regex_to_range_map" and \
            term[3][0] == ("param", "bindings") and sub_of(term[3][1], variant) == i

    def is_new_map(term):
        return term[0] == "call" and term[1].endswith("RangeMap::new")

    def as_u32_of(term, want):
        return term == want

    handled = 0
    for idx, vname in enumerate(variants):
        if idx not in entries:
            continue
        key = "R-CLASS:%s" % vname
        where = blocks[entries[idx]].get("span")
        calls = arm_calls(sym, private[idx])
        ret = returned(idx)
        muts = [(bi, c, a) for bi, c, a, t in calls if c.startswith("range_map::RangeMap::") and
                c.rsplit("::", 1)[-1] in ("insert", "insert_ranges", "remove_ranges")]
        diverges = any(c.endswith("panic_fmt") or "panic" in c for bi, c, a, t in calls)
        if vname in ("String", "ZeroOrMore", "OneOrMore", "ZeroOrOne", "Concat", "EndOfInput"):
            ctx.ob("R-CLASS", "%s is rejected inside a class expression" % vname, diverges and not ret,
                   key=key + ":reject", where=where)
            handled += 1
            continue
        ctx.ob("R-CLASS", "%s: the arm returns a class" % vname, len(ret) == 1 and not diverges,
               key=key + ":returns", where=where, detail=[show(r) for r in ret])
        if len(ret) != 1:
            continue
        r = ret[0]
        handled += 1
        if vname in ("Or", "Diff"):
            op = "insert_ranges" if vname == "Or" else "remove_ranges"
            ok = len(muts) == 1 and muts[0][1].endswith("::" + op)
            ctx.ob("R-CLASS", "%s: exactly one class operation, %s" % (vname, op), ok, key=key + ":op",
                   where=where, detail=[c for _, c, a in muts])
            if not ok:
                continue
            a = muts[0][2]
            left, right = a[0], a[1]
            if vname == "Or":
                # commutative: either operand may be the accumulator
                l_i = 0 if rec_on(left, "Or", 0) else (1 if rec_on(left, "Or", 1) else None)
                r_ok = right[0] == "call" and right[1].endswith("RangeMap::into_iter") and l_i is not None and \
                    rec_on(right[3][0], "Or", 1 - l_i)
                ctx.ob("R-CLASS", "Or: the union is of the classes of the two operands", l_i is not None and r_ok,
                       key=key + ":operands", where=where, detail=[show(left), show(right)])
            else:
                ctx.ob("R-CLASS", "Diff: the class of the right operand is removed from the class of the left "
                       "operand (not the other way round)", rec_on(left, "Diff", 0) and rec_on(right, "Diff", 1),
                       key=key + ":operands", where=where, detail=[show(left), show(right)])
            ctx.ob("R-CLASS", "%s: the class returned is the one the operation was applied to" % vname,
                   r == left, key=key + ":result", where=where, detail=[show(r), show(left)])
        elif vname == "Var":
            ok = r[0] == "call" and r[1] == "regex_to_nfa::regex_to_range_map" and r[3][0] == ("param", "bindings") \
                and contains(r[3][1], is_binding_lookup)
            ctx.ob("R-CLASS", "Var: the class of `bindings[var]`", ok and not muts, key=key + ":lookup", where=where,
                   detail=show(r))
        elif vname == "Builtin":
            ctx.ob("R-CLASS", "Builtin: the table found for the name", class_of_builtin(r, "Builtin") and not muts,
                   key=key + ":class", where=where, detail=show(r))
        elif vname == "Char":
            want = ("path", ("param", "re"), (("as", "Char"), ("f", 0)))
            ok = is_new_map(r) and len(muts) == 1 and muts[0][1].endswith("::insert") and muts[0][2][0] == r \
                and muts[0][2][1] == want and muts[0][2][2] == want
            ctx.ob("R-CLASS", "Char: the one-character class [c, c]", ok, key=key + ":class", where=where,
                   detail=[[show(x) for x in m[2]] for m in muts])
        elif vname == "Any":
            ok = is_new_map(r) and len(muts) == 1 and muts[0][1].endswith("::insert") and muts[0][2][0] == r \
                and muts[0][2][1] == ("const", 0) and muts[0][2][2] in (("const", 0x10FFFF), ("const", "'\\u{10ffff}'"))
            ctx.ob("R-CLASS", "Any: the class [0, char::MAX]", ok, key=key + ":class", where=where,
                   detail=[[show(x) for x in m[2]] for m in muts])
        elif vname == "CharSet":
            ok = is_new_map(r) and bool(muts) and all(m[1].endswith("::insert") and m[2][0] == r for m in muts)
            ctx.ob("R-CLASS", "CharSet: items are inserted into one fresh class, which is returned", ok,
                   key=key + ":class", where=where)
            kinds = set()
            for bi, c, a in muts:
                lo, hi = a[1], a[2]
                if item_field(lo, "Char") == 0 and item_field(hi, "Char") == 0:
                    kinds.add("Char")
                elif item_field(lo, "Range") == 0 and item_field(hi, "Range") == 1:
                    kinds.add("Range")
                else:
                    ctx.ob("R-CLASS", "CharSet: an item is inserted as [c, c] or [start, end]", False,
                           key=key + ":item", where=where, detail=[show(lo), show(hi)])
            ctx.ob("R-CLASS", "CharSet: both kinds of item (character, range) are inserted",
                   kinds == {"Char", "Range"}, key=key + ":kinds", where=where, detail=sorted(kinds))
        else:
            ctx.ob("R-CLASS", "variant %s of ast::Regex is known to the rule" % vname, False, key=key + ":unknown",
                   where=where)
    ctx.floor("variants of ast::Regex handled by regex_to_range_map", handled, 13)


# --------------------------------------------------------------------------- builder / accessor agreement
NFA_WRITERS = {
    "add_char_transition": "char_transitions", "add_range_transition": "range_transitions",
    "add_range_transitions": "range_transitions", "add_empty_transition": "empty_transitions",
    "add_any_transition": "any_transitions", "add_end_of_input_transition": "end_of_input_transitions",
    "make_state_accepting": "accepting",
}
NFA_READERS = {
    "char_transitions": "char_transitions", "range_transitions": "range_transitions",
    "any_transitions": "any_transitions", "end_of_input_transitions": "end_of_input_transitions",
    "next_empty_states": "empty_transitions", "get_accepting_state": "accepting",
}


def state_fields_touched(body, adt_prefix):
    out = set()

    def visit(x):
        if isinstance(x, dict):
            f = x.get("f")
            if isinstance(f, str) and f.startswith(adt_prefix):
                out.add(f[len(adt_prefix):])
            for v in x.values():
                visit(v)
        elif isinstance(x, list):
            for v in x:
                visit(v)
    for bb in body["mir"]["blocks"]:
        if not bb["cleanup"]:
            visit(bb["st"])
            visit(bb["term"])
    return out


def check_rprim(ctx, prog):
    """Each NFA builder method writes, and each accessor reads, the one field of `nfa::State` that its
    name says; builders index the state table with their `state` argument and store their `next`
    argument."""
    lex = prog.crate(LEX)
    n = 0
    for table, what in ((NFA_WRITERS, "writes"), (NFA_READERS, "reads")):
        for meth, field in sorted(table.items()):
            b = lex.body("nfa::NFA::" + meth)
            if not ctx.ob("R-PRIM", "NFA::%s found" % meth, b is not None, key="R-PRIM:%s:anchor" % meth):
                continue
            touched = state_fields_touched(b, "nfa::State::State.")
            # closures of the method (e.g. merge functions) do not touch State fields
            ctx.ob("R-PRIM", "NFA::%s %s only State.%s" % (meth, what, field), touched == {field},
                   key="R-PRIM:%s:field" % meth, where=b["span"], detail=sorted(touched))
            n += 1
            if what == "writes":
                roles = {1: "self", 2: "state"}
                argc = b["mir"]["argc"]
                roles[argc] = "next" if meth != "make_state_accepting" else "right_ctx"
                sym = Sym(b, roles)
                # the index into `states` is `state.0`
                idx_ok = False
                for bb in b["mir"]["blocks"]:
                    if bb["cleanup"]:
                        continue
                    for st in bb["st"]:
                        if "lhs" in st and st["rv"]["k"] == "use":
                            t = sym.operand(st["rv"]["o"])
                            if t == ("path", ("param", "state"), (("f", 0),)):
                                idx_ok = True
                    t = bb["term"]
                    if t["k"] == "call":
                        for a in t["args"]:
                            if contains(sym.operand(a), lambda x: x == ("path", ("param", "state"), (("f", 0),))):
                                idx_ok = True
                ctx.ob("R-PRIM", "NFA::%s indexes the state table with its `state` argument" % meth, idx_ok,
                       key="R-PRIM:%s:index" % meth, where=b["span"])
                if meth != "make_state_accepting":
                    stored = False
                    for bb in b["mir"]["blocks"]:
                        if bb["cleanup"]:
                            continue
                        t = bb["term"]
                        if t["k"] == "call":
                            c = norm_path(t.get("resp") or t["f"].get("path")) or ""
                            if c.endswith("HashSet::insert") and sym.operand(t["args"][1]) == ("param", "next"):
                                stored = True
                    ctx.ob("R-PRIM", "NFA::%s stores its `next` argument as the target" % meth, stored,
                           key="R-PRIM:%s:next" % meth, where=b["span"])
    ctx.floor("NFA builder and accessor methods checked for field agreement", n, 13)


# --------------------------------------------------------------------------- subset construction pairing
def _calls(sym):
    out = []
    for bi, bb in enumerate(sym.blocks):
        if bb["cleanup"]:
            continue
        t = bb["term"]
        if t["k"] == "call":
            c = norm_path(t.get("resp") or t["f"].get("path")) or "?"
            out.append((bi, c, tuple(sym.operand(a) for a in t["args"])))
    return out


def _is_call(t, suffix):
    return isinstance(t, tuple) and len(t) == 4 and t[0] == "call" and t[1].endswith(suffix)


def closure_of(term):
    """X if term is collect(into_iter(compute_state_closure(nfa, X))) (any iterator plumbing between
    the closure and the collected set is accepted), else None."""
    found = []

    def walk(t):
        if _is_call(t, "NFA::compute_state_closure"):
            found.append(t)
            return
        if isinstance(t, tuple) and len(t) == 4 and t[0] == "call":
            for a in t[3]:
                walk(a)
    walk(term)
    if len(found) == 1 and found[0][3][0] == ("param", "nfa"):
        return found[0][3][1]
    return None


def check_rsubset(ctx, prog):
    """nfa_to_dfa: every DFA transition is added from the DFA state of the popped set, to the DFA state
    registered for the epsilon-closure of the collected targets, and that same closure is queued for
    processing; labels and target sets come from the same item."""
    lex = prog.crate(LEX)
    b = lex.body("nfa_to_dfa::nfa_to_dfa")
    if not ctx.ob("R-SUBSET", "nfa_to_dfa found", b is not None, key="R-SUBSET:anchor"):
        return
    sym = Sym(b, {1: "nfa"})
    calls = _calls(sym)
    where = b["span"]
    pops = [x for x in calls if x[1] == "std::vec::Vec::pop"]
    if not ctx.ob("R-SUBSET", "one work list is popped", len(pops) == 1, key="R-SUBSET:pop", where=where):
        return
    W = pops[0][2][0]
    popped = None
    # the popped set: `(pop(W) as Some).0`
    acc = [x for x in calls if x[1].endswith("DFA::make_state_accepting")]
    if not ctx.ob("R-SUBSET", "make_state_accepting is called once", len(acc) == 1, key="R-SUBSET:acc", where=where):
        return
    dfa, cur = acc[0][2][0], acc[0][2][1]

    def from_pop(t):
        return contains(t, lambda x: _is_call(x, "Vec::pop") and x[3][0] == W)
    # current DFA state: looked up in the state map under the popped set, or created and registered
    alts = list(cur[1]) if cur[0] == "phi" else [cur]
    looked = [a for a in alts if contains(a, lambda x: _is_call(x, "HashMap::get") and from_pop(x[3][1]))]
    created = [a for a in alts if _is_call(a, "DFA::new_state")]
    ctx.ob("R-SUBSET", "the state being filled in is the one the state map holds for the popped set, or a new "
           "state", len(looked) >= 1 and len(looked) + len(created) == len(alts), key="R-SUBSET:current",
           where=where, detail=show(cur))
    state_map = None
    for a in looked:
        def grab(x):
            nonlocal state_map
            if _is_call(x, "HashMap::get") and from_pop(x[3][1]):
                state_map = x[3][0]
            return False
        contains(a, grab)
    for a in created:
        reg = [x for x in calls if x[1].endswith("HashMap::insert") and x[2][0] == state_map
               and from_pop(x[2][1]) and x[2][2] == a]
        # not an obligation: an unregistered state only duplicates work (and today the `None` arm is
        # unreachable: every queued set is registered before it is pushed)
        ctx.count("R-SUBSET: states created for a popped set and registered under it", len(reg))
    acc_val = acc[0][2][2]
    ctx.ob("R-SUBSET", "the accepting value comes from NFA::get_accepting_state of a member of the popped set",
           contains(acc_val, lambda x: _is_call(x, "NFA::get_accepting_state") and x[3][0] == ("param", "nfa")
                    and from_pop(x[3][1])), key="R-SUBSET:accepting", where=where, detail=show(acc_val))
    pushes_W = [x[2][1] for x in calls if x[1] == "std::vec::Vec::push" and x[2][0] == W]

    def check_target(kind, tgt, detail_where):
        ok_map = _is_call(tgt, "nfa_to_dfa::dfa_state_of_nfa_states") and tgt[3][0] == dfa and tgt[3][1] == state_map
        ctx.ob("R-SUBSET", "%s: the target is the DFA state registered (or created) for a set of NFA states in "
               "the same state map" % kind, ok_map, key="R-SUBSET:%s:target" % kind, where=where, detail=show(tgt))
        if not ok_map:
            return None
        key_set = tgt[3][2]
        C = key_set[3][0] if _is_call(key_set, "Clone>::clone") or _is_call(key_set, "::clone") else key_set
        X = closure_of(C)
        ctx.ob("R-SUBSET", "%s: that set is the empty-transition closure (compute_state_closure) of the collected "
               "targets" % kind, X is not None, key="R-SUBSET:%s:closure" % kind, where=where, detail=show(C))
        ctx.ob("R-SUBSET", "%s: the same closure is pushed on the work list, so the target state gets its own "
               "transitions and accepting value" % kind, C in pushes_W, key="R-SUBSET:%s:queued" % kind,
               where=where, detail={"closure": show(C), "pushed": [show(p)[:120] for p in pushes_W]})
        return X

    n_sites = 0
    for meth, kind in (("add_char_transition", "char"), ("set_any_transition", "any"),
                       ("set_end_of_input_transition", "end-of-input")):
        sites = [x for x in calls if x[1].endswith("DFA::" + meth)]
        ctx.ob("R-SUBSET", "%s transitions are added at one place" % kind, len(sites) == 1,
               key="R-SUBSET:%s:sites" % kind, where=where)
        for bi, c, a in sites:
            n_sites += 1
            ctx.ob("R-SUBSET", "%s: the transition leaves the state being filled in" % kind,
                   a[0] == dfa and a[1] == cur, key="R-SUBSET:%s:source" % kind, where=where, detail=show(a[1]))
            X = check_target(kind, a[-1], bi)
            if kind == "char" and X is not None:
                label = a[2]
                ok = label[0] == "path" and X[0] == "path" and label[1] == X[1] and \
                    label[2][:-1] == X[2][:-1] and label[2][-1] == ("f", 0) and X[2][-1] == ("f", 1)
                ctx.ob("R-SUBSET", "char: the label and the target set are the key and the value of the same "
                       "entry of the collected character transitions", ok, key="R-SUBSET:char:item", where=where,
                       detail=[show(label), show(X)])
    # ranges: Range { start, end, value } pushed to a vector handed to set_range_transitions
    srt = [x for x in calls if x[1].endswith("DFA::set_range_transitions")]
    ctx.ob("R-SUBSET", "range transitions are set at one place", len(srt) == 1, key="R-SUBSET:range:sites", where=where)
    for bi, c, a in srt:
        n_sites += 1
        ctx.ob("R-SUBSET", "range: the transitions are set on the state being filled in", a[0] == dfa and a[1] == cur,
               key="R-SUBSET:range:source", where=where)
        m = a[2]
        ok_ctor = _is_call(m, "RangeMap::from_non_overlapping_sorted_ranges")
        ctx.ob("R-SUBSET", "range: the map is built from the vector of ranges collected in the loop", ok_ctor,
               key="R-SUBSET:range:ctor", where=where, detail=show(m)[:200])
        if not ok_ctor:
            continue
        V = m[3][0]
        items = [x[2][1] for x in calls if x[1] == "std::vec::Vec::push" and x[2][0] == V]
        ctx.ob("R-SUBSET", "range: ranges are pushed to that vector at one place", len(items) == 1,
               key="R-SUBSET:range:push", where=where)
        for it in items:
            ok_agg = it[0] == "agg" and "range_map::Range" in it[1] and len(it[2]) == 3
            ctx.ob("R-SUBSET", "range: a Range { start, end, value } is pushed", ok_agg, key="R-SUBSET:range:agg",
                   where=where)
            if not ok_agg:
                continue
            start, end, value = it[2]
            X = check_target("range", value, bi)
            clamp = []
            contains(start, lambda x: clamp.append(x) if _is_call(x, "nfa_to_dfa::clamp_to_chars") else False)
            ok = False
            if clamp and X is not None:
                cl = clamp[0]
                s_in, e_in = cl[3]
                same_item = s_in[0] == "path" and e_in[0] == "path" and X[0] == "path" and \
                    s_in[1] == e_in[1] == X[1] and s_in[2][:-1] == e_in[2][:-1] == X[2][:-1]
                fields = (s_in[2][-1], e_in[2][-1], X[2][-1]) == (("f", 0), ("f", 1), ("f", 2)) if same_item else False
                outs = start[0] == "path" and end[0] == "path" and start[2][-1] == ("f", 0) and end[2][-1] == ("f", 1) \
                    and contains(end, lambda x: x == cl)
                ok = same_item and fields and outs
            ctx.ob("R-SUBSET", "range: start, end (clamped to scalar values, in that order) and the target set come "
                   "from the same collected range", ok, key="R-SUBSET:range:item", where=where,
                   detail=[show(start)[:160], show(end)[:160], show(X)[:160] if X else None])
    ctx.floor("places in nfa_to_dfa where DFA transitions are added", n_sites, 4)
    # the helper: registered state or a new one that is registered
    h = lex.body("nfa_to_dfa::dfa_state_of_nfa_states")
    if ctx.ob("R-SUBSET", "dfa_state_of_nfa_states found", h is not None, key="R-SUBSET:helper:anchor"):
        hs = Sym(h, {1: "dfa", 2: "state_map", 3: "states"})
        hc = _calls(hs)
        ent = [x for x in hc if x[1].endswith("HashMap::entry")]
        ok = len(ent) == 1 and ent[0][2][0] == ("param", "state_map") and ent[0][2][1] == ("param", "states")
        ctx.ob("R-SUBSET", "dfa_state_of_nfa_states looks the given set up in the given map", ok,
               key="R-SUBSET:helper:lookup", where=h["span"])
        ins = [x for x in hc if x[1].endswith("VacantEntry::insert")]
        ok = len(ins) == 1 and _is_call(ins[0][2][1], "DFA::new_state") and ins[0][2][1][3][0] == ("param", "dfa")
        ctx.ob("R-SUBSET", "dfa_state_of_nfa_states registers a new state of the same DFA when the set is unknown",
               ok, key="R-SUBSET:helper:insert", where=h["span"])
        ret = hs.local(0)
        alts = list(ret[1]) if ret[0] == "phi" else [ret]
        ok = len(alts) == 2 and any(_is_call(x, "DFA::new_state") for x in alts) and \
            any(contains(x, lambda y: _is_call(y, "OccupiedEntry::get")) for x in alts)
        ctx.ob("R-SUBSET", "dfa_state_of_nfa_states returns the registered state or the new one", ok,
               key="R-SUBSET:helper:result", where=h["span"], detail=show(ret))


# --------------------------------------------------------------------------- subset construction provenance
def subterms(t, pred, out):
    if pred(t):
        out.append(t)
    if isinstance(t, (tuple, frozenset)):
        for x in t:
            subterms(x, pred, out)
    return out


def is_default(t):
    return isinstance(t, tuple) and len(t) == 4 and t[0] == "call" and t[1].endswith("Default>::default")


def item_of(t):
    """(collection term, path) if t is `next(into_iter*(coll)) as Some .0 <path>`"""
    if t[0] != "path":
        return None
    base, path = t[1], t[2]
    if not (_is_call(base, "Iterator>::next") and path[:2] == (("as", "Some"), ("f", 0))):
        return None
    c = base[3][0]
    while isinstance(c, tuple) and len(c) == 4 and c[0] == "call" and _re.search(
            r"(into_iter|::iter|::copied|Deref>::deref)$", c[1]):
        c = c[3][0]
    return c, path[2:]


NAV = _re.compile(r"(Iterator>::next|IntoIterator>::into_iter|HashMap::entry|Entry::or_default|::iter|"
                 r"RangeMap::len|RangeMap::into_iter|RangeMap::iter|Vec::with_capacity|::len)$")


def check_rprov(ctx, prog):
    lex = prog.crate(LEX)
    b = lex.body("nfa_to_dfa::nfa_to_dfa")
    if not ctx.ob("R-PROV", "nfa_to_dfa found", b is not None, key="R-PROV:anchor"):
        return
    sym = Sym(b, {1: "nfa"})
    blocks = sym.blocks
    loops, dom, preds = cfg.natural_loops(blocks)
    locals_ = b["mir"]["locals"]
    where = b["span"]
    calls = []
    for bi, bb in enumerate(blocks):
        if bb["cleanup"]:
            continue
        t = bb["term"]
        if t["k"] == "call":
            c = norm_path(t.get("resp") or t["f"].get("path")) or "?"
            a0mut = False
            if t["args"]:
                q = t["args"][0].get("move") or t["args"][0].get("copy")
                if q is not None and not q["p"]:
                    ty = locals_[q["l"]]
                    ty = ty.get("ty") if isinstance(ty, dict) else ty
                    a0mut = str(ty).startswith("&mut")
            calls.append((bi, c, tuple(sym.operand(a) for a in t["args"]), a0mut))

    def member(t):
        """a member of the popped set"""
        it = item_of(t) if t[0] == "path" else None
        if it is None:
            # `next(..) as Some .0` without further path
            if t[0] == "path" and _is_call(t[1], "Iterator>::next"):
                it = item_of(("path", t[1], t[2]))
        return contains(t, lambda x: _is_call(x, "Vec::pop"))

    # collectors from the transition sites
    coll = {}
    for meth, kind in (("set_any_transition", "any"), ("set_end_of_input_transition", "eoi"),
                       ("add_char_transition", "char")):
        sites = [x for x in calls if x[1].endswith("DFA::" + meth)]
        if len(sites) != 1:
            ctx.ob("R-PROV", "one %s site" % kind, False, key="R-PROV:%s:site" % kind, where=where)
            return
        tgt = sites[0][2][-1]
        ks = tgt[3][2] if _is_call(tgt, "dfa_state_of_nfa_states") else None
        C = ks[3][0] if ks is not None and _is_call(ks, "clone") else ks
        X = closure_of(C) if C is not None else None
        if X is None:
            ctx.ob("R-PROV", "%s target is a closure" % kind, False, key="R-PROV:%s:closure" % kind, where=where)
            return
        coll[kind] = X
    ok = is_default(coll["any"]) and is_default(coll["eoi"]) and coll["any"] != coll["eoi"]
    ctx.ob("R-PROV", "the `_` and end-of-input target sets are two separate fresh sets", ok, key="R-PROV:sets",
           where=where, detail=[show(coll["any"]), show(coll["eoi"])])
    D_any, D_eoi = coll["any"], coll["eoi"]
    ci = item_of(coll["char"])
    ok = ci is not None and is_default(ci[0]) and ci[1] == (("f", 1),)
    ctx.ob("R-PROV", "character targets are the values of a fresh map iterated entry by entry", ok,
           key="R-PROV:charmap", where=where, detail=show(coll["char"]))
    if not ok:
        return
    D_char = ci[0]
    CHAR_ITEM = ("path", coll["char"][1], coll["char"][2][:-1])
    # range map: from the Range aggregate pushed
    D_range = None
    X_range = None
    for bi, c, a, m in calls:
        if c == "std::vec::Vec::push" and a[1][0] == "agg" and "range_map::Range" in a[1][1]:
            v = a[1][2][2]
            ks = v[3][2] if _is_call(v, "dfa_state_of_nfa_states") else None
            C = ks[3][0] if ks is not None and _is_call(ks, "clone") else ks
            X_range = closure_of(C) if C is not None else None
    ri = item_of(X_range) if X_range is not None else None
    ok = ri is not None and is_default(ri[0]) and ri[1] == (("f", 2),)
    ctx.ob("R-PROV", "range targets are the values of a fresh range map iterated piece by piece", ok,
           key="R-PROV:rangemap", where=where, detail=show(X_range) if X_range else None)
    if not ok:
        return
    D_range = ri[0]
    names = {D_any: "`_` targets", D_eoi: "end-of-input targets", D_char: "character targets",
             D_range: "range targets"}

    def nfa_item(t, accessor):
        """path below an item of NFA::<accessor>(nfa, member of popped set)"""
        it = item_of(t)
        if it is None:
            return None
        c, path = it
        if _is_call(c, "NFA::" + accessor) and c[3][0] == ("param", "nfa") and \
                contains(c[3][1], lambda x: _is_call(x, "Vec::pop")):
            return c, path
        return None

    ACCESSORS = ("char_transitions", "range_transitions", "any_transitions", "end_of_input_transitions",
                 "get_accepting_state", "initial_state")

    def sources(args):
        """(NFA accessors, collectors) the inserted values derive from"""
        acc = set()
        cols = set()
        for t in args:
            for x in subterms(t, lambda y: isinstance(y, tuple) and len(y) == 4 and y[0] == "call"
                              and y[1].startswith("nfa::NFA::") and y[1].rsplit("::", 1)[-1] in ACCESSORS, []):
                acc.add(x[1].rsplit("::", 1)[-1])
            for d in names:
                if contains(t, lambda y, d=d: y == d):
                    cols.add(d)
            if contains(t, lambda y: _is_call(y, "Vec::pop")) and not acc:
                acc.add("<the popped set itself>")
        return acc, cols

    def within(t, d):
        if t == d:
            return True
        if _is_call(t, "Entry::or_default") and _is_call(t[3][0], "HashMap::entry") and t[3][0][3][0] == d:
            return True
        it = item_of(t) if t[0] == "path" else None
        return it is not None and it[0] == d

    n_mut = 0
    for bi, c, a, a0mut in calls:
        if not a or not a0mut:
            continue
        roots = [d for d in names if within(a[0], d)]
        if not roots or NAV.search(c):
            continue
        root = roots[0]
        what = names[root]
        key = "R-PROV:%s" % what.split()[0].strip("`")
        vals = [x for x in a[1:] if not (x[0] == "agg" and "closure" in x[1])]
        acc, cols = sources(vals)
        cols.discard(root) if a[0] != root else None
        stage2 = a[0] != root and not _is_call(a[0], "Entry::or_default")
        ok = False
        rule = ""
        if root == D_eoi:
            rule = "only NFA::end_of_input_transitions of members of the popped set"
            ok = acc == {"end_of_input_transitions"} and not cols
        elif root == D_any:
            rule = "only NFA::any_transitions of members of the popped set"
            ok = acc == {"any_transitions"} and not cols
        elif root == D_char and not stage2:
            rule = "only the targets of NFA character transitions, filed under that transition's character"
            ent = a[0][3][0] if _is_call(a[0], "Entry::or_default") else None
            K = ent[3][1] if ent is not None else None
            kk = nfa_item(K, "char_transitions") if K is not None else None
            srcs = subterms(a[1], lambda x: isinstance(x, tuple) and x[:1] == ("path",) and
                            nfa_item(x, "char_transitions") is not None, [])
            same = kk is not None and kk[1] == (("f", 0),) and any(
                nfa_item(s_, "char_transitions")[0] == kk[0] and nfa_item(s_, "char_transitions")[1] == (("f", 1),)
                for s_ in srcs)
            ok = acc == {"char_transitions"} and not cols and same
        elif root == D_char:
            rule = "only targets of a collected range that contains the character, or `_` targets"
            ok = not acc and cols and cols <= {D_range, D_any}
            if ok and D_range in cols:
                rs = subterms(a[1], lambda x: isinstance(x, tuple) and x[:1] == ("path",) and
                              item_of(x) is not None and item_of(x)[0] == D_range and item_of(x)[1] == (("f", 2),), [])
                guarded = False
                for r_ in rs:
                    R = ("path", r_[1], r_[2][:-1])
                    guards = [gb for gb, gc, ga, gm in calls if gc.endswith("Range::contains") and ga[0] == R
                              and ga[1] == ("path", CHAR_ITEM[1], CHAR_ITEM[2] + (("f", 0),))]
                    guarded = guarded or any(true_edge_dominates(blocks, dom, g, bi) for g in guards)
                if not guarded:
                    ok = False
                    rule += " (the range must be tested with contains(char) first)"
        elif root == D_range and not stage2:
            rule = "only NFA range transitions, inserted as (start, end, targets) with a merge that keeps both sides"
            ok = acc == {"range_transitions"} and not cols
            if ok and c.endswith("RangeMap::insert"):
                its = [nfa_item(x, "range_transitions") for x in a[1:3]]
                v = a[3][3][0] if _is_call(a[3], "clone") else a[3]
                iv = nfa_item(v, "range_transitions")
                ok = all(x is not None for x in its) and iv is not None and its[0][0] == its[1][0] == iv[0] and \
                    (its[0][1], its[1][1], iv[1]) == ((("f", 0),), (("f", 1),), (("f", 2),))
                cb = None
                targ = blocks[bi]["term"]["args"][4]
                q = targ.get("move") or targ.get("copy")
                if q is not None:
                    for kind_, d_, _b in sym.defs.get(q["l"], []):
                        if kind_ == "st" and d_["k"] == "agg" and d_["kind"].get("agg") == "closure":
                            cb = lex.body(norm_path(d_["kind"]["def"]))
                okm = False
                if cb is not None:
                    cs = Sym(cb, {1: "env", 2: "a", 3: "b"})
                    ext = [x for x in _calls(cs) if x[1].endswith("Extend>::extend")]
                    okm = len(ext) == 1 and ext[0][2][0] == ("param", "a") and \
                        contains(ext[0][2][1], lambda x: x == ("param", "b"))
                ctx.ob("R-PROV", "range targets: where two NFA ranges overlap the merged piece gets the targets "
                       "of both (the merge function extends the first set with the second)", okm,
                       key=key + ":merge", where=where)
        elif root == D_range:
            rule = "only `_` targets in addition to a range's own targets"
            ok = not acc and cols == {D_any}
        n_mut += 1
        ctx.ob("R-PROV", "%s receive %s" % (what, rule), ok,
               key=key + ":source:%s:%s" % ("piece" if stage2 else "collect", c.rsplit("::", 1)[-1]),
               where=blocks[bi].get("span"),
               detail={"call": c, "target": show(a[0])[:200], "NFA accessors feeding the inserted value": sorted(acc),
                       "collected sets feeding it": sorted(names[x] for x in cols)})
    ctx.floor("places where the subset construction adds states to a target set", n_mut, 7)


