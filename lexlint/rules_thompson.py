"""R-THOMPSON, R-CLASSDISPATCH, R-PRIM: the regex -> NFA stage decided for all definitions by
structural induction over `ast::Regex`.

`regex_to_nfa::add_re(nfa, bindings, re, current, cont)` is a `match` with one arm per variant. For
every arm the rule extracts, from the MIR, the builder calls the arm makes and where their
arguments come from (def-use terms: parameter, fresh state, field of `re`, result of a call), and
checks

  (1) interface discipline: no edge the arm adds (directly or through a recursive call) enters
      `current` or leaves `cont`, every state it mentions is `current`, `cont` or a state the arm
      created itself, and the two ends of every recursive call are different terms;
  (2) local language: with each recursive call `add_re(.., sub_i, a, b)` read as one edge a -R_i-> b,
      the words from `current` to `cont` over the alphabet {R_0, R_1} are exactly the variant's
      documented language (R0*, R0 R0*, R0|eps, R0 R1, R0|R1); decided by determinising the
      (at most four-state) template and the expected expression and comparing them.

(1) makes every recursive call behave as a single edge in its caller's graph whatever else is
attached to its ends (no path can re-enter the fragment except through its start, or leave it
except through its end), so (2) composes: by induction on the regex the fragment built between
`current` and `cont` spells exactly L(re). Leaves (`Char`, `_`, `$`, classes) are checked as a single
builder call from `current` to `cont` carrying the variant's own payload; the two loops (`String`,
`CharSet`) by the origin of every argument of the calls inside them.

The deciding step is a def-use analysis plus automata equivalence on templates; nothing is run.
"""
import re as _re

from . import cfg
from .rules_src import LEX, norm_path, true_edge_dominates

ROLES_ADD_RE = {1: "nfa", 2: "bindings", 3: "re", 4: "current", 5: "cont"}
ROLES_R2RM = {1: "bindings", 2: "re"}

BOX_FIELDS = ("std::boxed::Box", "std::ptr::Unique", "std::ptr::NonNull")


class Sym(object):
    """Def-use terms for the locals of one MIR body."""

    def __init__(self, body, roles, crate=None, allowed=None, depth=0, choice=None):
        self.choice = choice or {}
        self.body = body
        self.blocks = body["mir"]["blocks"]
        self.roles = roles
        self.crate = crate
        self.depth = depth
        # call terms carry the block of the call; inside a closure evaluated from its creator the block
        # numbers are moved out of the creator's range, so that equal terms are equal calls
        self.bias = 0
        if depth > 0:
            import zlib
            self.bias = (zlib.crc32(str(body.get("path")).encode()) % 9000 + 1) * 100000
        self._allowed = allowed
        self.defs = {}
        for bi, bb in enumerate(self.blocks):
            if bb["cleanup"] or (allowed is not None and bi not in allowed):
                continue
            for st in bb["st"]:
                if "lhs" in st and not st["lhs"]["p"]:
                    self.defs.setdefault(st["lhs"]["l"], []).append(("st", st["rv"], bi))
            t = bb["term"]
            if t["k"] == "call" and not t["dest"]["p"]:
                self.defs.setdefault(t["dest"]["l"], []).append(("call", t, bi))
        self.memo = {}

    def operand(self, o, seen=()):
        if "int" in o:
            return ("const", o["int"])
        if "copy" in o or "move" in o:
            return self.place(o.get("copy") or o.get("move"), seen)
        if "const" in o or "fn" in o:
            return ("const", repr(o.get("const") or o.get("fn"))[:80])
        return ("const", repr(o)[:80])

    def place(self, pl, seen=()):
        base = self.local(pl["l"], seen)
        path = []
        for e in pl["p"]:
            if e == "*":
                continue
            if isinstance(e, dict) and "as" in e:
                path.append(("as", e["as"]))
            elif isinstance(e, dict) and "f" in e:
                if e["f"].startswith(BOX_FIELDS):
                    continue
                path.append(("f", e["i"]))
            else:
                path.append(("?", repr(e)))
        if not path:
            return base
        return self.norm(project(base, tuple(path)))

    # -- iteration: `next(ITER) as Some .0` is "an element of what ITER runs over", whatever mixture of
    #    loops and iterator adaptors produced ITER
    def norm(self, t):
        if t[0] == "path" and isinstance(t[1], tuple) and len(t[1]) == 4 and t[1][0] == "call" and \
                _re.search(r"Iterator>?::next$", t[1][1]) and t[1][3] and t[2][:2] == (("as", "Some"), ("f", 0)):
            return project(self.elem(t[1][3][0]), t[2][2:])
        if t[0] == "path" and t[2][:2] == (("as", "Some"), ("f", 0)) and isinstance(t[1], tuple) and \
                len(t[1]) == 4 and t[1][0] == "call":
            p = self.payload(t[1])
            if p is not None:
                return project(p, t[2][2:])
        return t

    # -- Option plumbing: the payload of `it.find(p)` is an element of `it` for which p holds; `map`,
    #    `copied`, `cloned`, `as_ref` pass it on; `map_or(d, f)` / `unwrap_or(d)` are either the default or
    #    the payload
    def payload(self, o):
        if not (isinstance(o, tuple) and len(o) == 4 and o[0] == "call"):
            return None
        name, args = o[1], o[3]
        if _re.search(r"Iterator>?::find$", name) and len(args) == 2:
            e = self.elem(args[0])
            return ("guarded", self.apply(args[1], e), e)
        if _re.search(r"Option::(copied|cloned|as_ref|as_mut|as_deref)$", name) and len(args) == 1:
            return self.payload(args[0]) or project(args[0], (("as", "Some"), ("f", 0)))
        if name.endswith("Option::map") and len(args) == 2:
            inner = self.payload(args[0]) or project(args[0], (("as", "Some"), ("f", 0)))
            return self.apply(args[1], inner)
        if name.endswith("Option::filter") and len(args) == 2:
            inner = self.payload(args[0]) or project(args[0], (("as", "Some"), ("f", 0)))
            return ("guarded", self.apply(args[1], inner), inner)
        return None

    def norm_call(self, t):
        name, args = t[1], t[3]
        # integer arithmetic spelled as methods: `a.checked_add(b)` is Some(a + b), `.expect(..)` /
        # `.unwrap()` of that is a + b
        m = _re.search(r"<impl \w+>::(checked|wrapping|saturating|strict|unchecked)_(add|sub)$", name)
        if m and len(args) == 2:
            b = ("bin", {"add": "Add", "sub": "Sub"}[m.group(2)], args[0], args[1])
            return ("agg", "adt:std::option::Option:Some", (b,)) if m.group(1) == "checked" else b
        if _re.search(r"Option::(expect|unwrap|unwrap_unchecked)$", name) and args and \
                isinstance(args[0], tuple) and args[0][:2] == ("agg", "adt:std::option::Option:Some") and args[0][2]:
            return args[0][2][0]
        if name.endswith("Option::map_or") and len(args) == 3:
            inner = self.payload(args[0]) or project(args[0], (("as", "Some"), ("f", 0)))
            return phi([args[1], self.apply(args[2], inner)])
        if name.endswith("Option::unwrap_or") and len(args) == 2:
            inner = self.payload(args[0]) or project(args[0], (("as", "Some"), ("f", 0)))
            return phi([args[1], inner])
        return t

    def elem(self, it):
        if isinstance(it, tuple) and it[:2] == ("agg", "array"):
            if it in self.choice:
                return it[2][self.choice[it]]      # this evaluator follows one element of a literal array
            return phi(list(it[2])) if it[2] else ("elem", it)
        if not (isinstance(it, tuple) and len(it) == 4 and it[0] == "call"):
            if isinstance(it, tuple) and it and it[0] == "phi":
                return phi([self.elem(x) for x in it[1]])
            return ("elem", it)
        name, args = it[1], it[3]
        if not args:
            return ("elem", it)

        def m(*meths):
            return any(_re.search(r"(Iterator>?|IntoIterator>?)::%s$" % x, name) for x in meths)
        if (m("into_iter", "copied", "cloned", "rev", "peekable", "by_ref", "fuse") or _re.search(
                r"(::iter|::iter_mut|::into_iter|Deref>::deref|DerefMut>::deref_mut|::as_slice|::drain)$", name)) \
                and not name.startswith("nfa::NFA::") and not name.startswith("dfa::DFA::"):
            return self.elem(args[0])
        if m("map") and len(args) == 2:
            return self.apply(args[1], self.elem(args[0]))
        if m("filter_map") and len(args) == 2:
            return project(self.apply(args[1], self.elem(args[0])), (("as", "Some"), ("f", 0)))
        if m("filter") and len(args) == 2:
            e = self.elem(args[0])
            return ("guarded", self.apply(args[1], e), e)
        if m("enumerate"):
            return ("agg", "tuple", (("index",), self.elem(args[0])))
        if m("chain") and len(args) == 2:
            return phi([self.elem(args[0]), self.elem(args[1])])
        if name.endswith("::values") or name.endswith("::values_mut") or name.endswith("::into_values"):
            return project(self.elem(args[0]), (("f", 1),))
        if name.endswith("::keys") or name.endswith("::into_keys"):
            return project(self.elem(args[0]), (("f", 0),))
        return ("elem", it)

    CTORS = _re.compile(r"(Vec::new|Vec::with_capacity|Default>::default|RangeMap::new|HashSet::new|HashMap::new|"
                        r"BTreeSet::new|BTreeMap::new|box_assume_init_into_vec_unsafe|String::new)$")
    ADDERS = _re.compile(r"(Vec::push|HashSet::insert|BTreeSet::insert|Extend>::extend|RangeMap::insert|"
                         r"RangeMap::insert_ranges|HashMap::insert|BTreeMap::insert|String::push|String::push_str)$")

    def all_calls(self):
        if not hasattr(self, "_all_calls"):
            self._all_calls = _calls(self)
        return self._all_calls

    def contents(self, term):
        """Value arguments of the calls that add to the collection created by constructor term `term`."""
        out = []
        if not (isinstance(term, tuple) and len(term) == 4 and term[0] == "call" and self.CTORS.search(term[1])):
            return out
        for bi, c, a in self.all_calls():
            if a and a[0] == term and self.ADDERS.search(c):
                for v in a[1:]:
                    if not (v[0] == "agg" and v[1].startswith("closure:")):
                        out.append(self.elem(v) if c.endswith("Extend>::extend") or c.endswith("insert_ranges") else v)
        return out

    # -- guard refinement: inside `match tag { A => .., B => .. }` where (tag, x) is an element of a
    #    literal array `[(A, xa), (B, xb)]` being iterated, x is xa in the first arm and xb in the second
    def dominators(self):
        if not hasattr(self, "_dom"):
            _loops, self._dom, _preds = cfg.natural_loops(self.blocks)
        return self._dom

    def variant_index(self, kind):
        if not kind.startswith("adt:") or self.crate is None:
            return None
        _a, path, variant = kind.split(":", 2)[0], kind[4:].rsplit(":", 1)[0], kind.rsplit(":", 1)[1]
        adt = self.crate.adt(path)
        if adt is None:
            return None
        names = [v["name"] for v in adt["variants"]]
        return names.index(variant) if variant in names else None

    def refine(self, block, term):
        arrs = []
        contains(term, lambda y: arrs.append(y[1]) if (isinstance(y, tuple) and len(y) == 2 and y[0] == "elem"
                                                       and isinstance(y[1], tuple) and y[1][:2] == ("agg", "array")) else False)
        if not arrs:
            return term
        dom = self.dominators()
        doms = dom.get(block, ())
        for arr in set(arrs):
            feasible = set(range(len(arr[2])))
            for sb in doms:
                t = self.blocks[sb]["term"]
                if t["k"] != "switch" or sb == block:
                    continue
                op = self.operand(t["d"])
                if op[0] != "discr" or not contains(op[1], lambda y: y == ("elem", arr)):
                    continue
                edges = [(v, tg) for v, tg in t["arms"]] + [(None, t["else"])]
                taken = [(v, tg) for v, tg in edges if tg in doms and tg != sb]
                if len(taken) != 1:
                    continue
                v_taken = taken[0][0]
                arm_vals = {v for v, _ in t["arms"]}
                for j in list(feasible):
                    tj = subst(op[1], ("elem", arr), arr[2][j])
                    idx = self.variant_index(tj[1]) if tj[0] == "agg" else None
                    if idx is None:
                        continue
                    ok = (idx == v_taken) if v_taken is not None else (idx not in arm_vals)
                    if not ok:
                        feasible.discard(j)
            if feasible and len(feasible) < len(arr[2]):
                term = subst(term, ("elem", arr), phi([arr[2][j] for j in sorted(feasible)]))
        return term

    def calls_mut(self):
        """(block, callee, argument terms, first argument is a `&mut`) for every call of this body."""
        if not hasattr(self, "_calls_mut"):
            out = []
            locals_ = self.body["mir"]["locals"]
            for bi, bb in enumerate(self.blocks):
                if bb["cleanup"] or bi not in self.allowed_blocks():
                    continue
                t = bb["term"]
                if t["k"] != "call":
                    continue
                c = norm_path(t.get("resp") or t["f"].get("path")) or "?"
                a0mut = False
                if t["args"]:
                    q = t["args"][0].get("move") or t["args"][0].get("copy")
                    if q is not None and not q["p"]:
                        a0mut = str(locals_[q["l"]]).startswith("&mut")
                out.append((bi, c, tuple(self.operand(a) for a in t["args"]), a0mut))
            self._calls_mut = out
        return self._calls_mut

    def allowed_blocks(self):
        return self._allowed if self._allowed is not None else range(len(self.blocks))

    def closure_children(self):
        """Child evaluators for the closures created in this body. A closure handed to an iterator
        adaptor (`map`, `filter_map`, `filter`, `for_each`, `any`, ..) gets its argument bound to an
        element of the adaptor's source."""
        out = []
        for clo in closure_terms(self):
            bound = []
            for bi, c, a, m in self.calls_mut():
                if len(a) == 2 and a[1] == clo and _re.search(
                        r"Iterator>?::(map|filter_map|filter|for_each|any|all|find|find_map|position|flat_map|"
                        r"take_while|skip_while|inspect)$", c):
                    bound.append(self.elem(a[0]))
            cb = self.crate.body(norm_path(clo[1][len("closure:"):])) if self.crate is not None else None
            if cb is None or self.depth >= 4:
                continue
            for arg in (bound or [None]):
                roles = {1: clo}
                if arg is not None:
                    roles[2] = arg
                out.append((clo, Sym(cb, roles, crate=self.crate, depth=self.depth + 1)))
        return out

    def deep_calls_mut(self, _seen=None):
        """calls_mut() plus the calls made inside closures created in this body, their captures bound to
        this body's terms. Block ids of closure calls are ("clo", def, block)."""
        _seen = set() if _seen is None else _seen
        out = list(self.calls_mut())
        for clo, ch in self.closure_children():
            key = (clo, ch.roles.get(2))
            if key in _seen:
                continue
            _seen.add(key)
            out += [(("clo", clo[1], bi), c, a, m) for bi, c, a, m in ch.deep_calls_mut(_seen)]
        return out

    def deep_calls(self):
        return [(bi, c, a) for bi, c, a, m in self.deep_calls_mut()]

    # -- loops over a literal array of tagged tuples, `for (kind, x) in [(A, xa), (B, xb)] { .. match kind
    #    {A => f(x), B => g(x)} }`: one evaluator per element, with the blocks that the element's tag
    #    cannot reach pruned, so that `x` is xa where f is called and xb where g is called
    def literal_arrays_iterated(self):
        arrs = []
        for bi, c, a, m in self.calls_mut():
            for t in a:
                contains(t, lambda y: arrs.append(y) if (isinstance(y, tuple) and y[:2] == ("agg", "array")
                                                         and len(y[2]) >= 2) else False)
        seen = []
        for x in arrs:
            if x not in seen:
                seen.append(x)
        return seen

    def specialised(self):
        arrs = self.literal_arrays_iterated()
        if len(arrs) != 1 or self.choice:
            return [self]
        arr = arrs[0]
        out = []
        for j in range(len(arr[2])):
            probe = Sym(self.body, self.roles, crate=self.crate, allowed=self._allowed, depth=self.depth,
                        choice={arr: j})
            allowed = probe.prune()
            out.append(Sym(self.body, self.roles, crate=self.crate, allowed=allowed, depth=self.depth,
                           choice={arr: j}))
        return out

    def prune(self):
        """Blocks reachable from the entry when every switch on the discriminant of a value that this
        evaluator knows to be a particular enum variant takes that variant's edge."""
        seen = set()
        work = [0]
        base = set(self.allowed_blocks())
        while work:
            b = work.pop()
            if b in seen or b < 0 or b >= len(self.blocks) or self.blocks[b]["cleanup"] or b not in base:
                continue
            seen.add(b)
            t = self.blocks[b]["term"]
            k = t["k"]
            if k == "switch":
                op = self.operand(t["d"])
                idx = None
                if op[0] == "discr" and op[1][0] == "agg":
                    idx = self.variant_index(op[1][1])
                if idx is not None:
                    arms = dict(t["arms"])
                    work.append(arms[idx] if idx in arms else t["else"])
                else:
                    work.extend(tg for _, tg in t["arms"])
                    work.append(t["else"])
            elif k == "goto":
                work.append(t["t"])
            elif k in ("call", "assert", "drop"):
                if t.get("t") is not None:
                    work.append(t["t"])
        return seen

    def apply(self, clo, arg):
        """Result of calling closure term `clo` on `arg` (the closure's body evaluated symbolically)."""
        if clo[0] == "agg" and clo[1].startswith("closure:") and self.crate is not None and self.depth < 4:
            cb = self.crate.body(norm_path(clo[1][len("closure:"):]))
            if cb is not None:
                child = Sym(cb, {1: clo, 2: arg}, crate=self.crate, depth=self.depth + 1)
                return child.local(0)
        return ("apply", clo, arg)

    def local(self, l, seen=()):
        if l in self.roles:
            r = self.roles[l]
            return r if isinstance(r, tuple) else ("param", r)
        if l in self.memo:
            return self.memo[l]
        if l in seen:
            return ("loop", l)
        seen = seen + (l,)
        ds = self.defs.get(l, [])
        out = []
        for kind, d, bi in ds:
            if kind == "call":
                c = norm_path(d.get("resp") or d["f"].get("path")) or "?"
                if c.endswith("NFA::new_state"):
                    out.append(("new", bi + self.bias))
                else:
                    out.append(self.norm_call(("call", c, bi + self.bias,
                                               tuple(self.operand(a, seen) for a in d["args"]))))
            else:
                k = d["k"]
                if k == "use":
                    out.append(self.operand(d["o"], seen))
                elif k == "ref":
                    out.append(self.place(d["p"], seen))
                elif k == "cast":
                    out.append(self.operand(d["o"], seen))
                elif k == "agg":
                    out.append(("agg", agg_kind(d.get("kind") or {}), tuple(self.operand(a, seen) for a in d["ops"])))
                elif k == "discr":
                    out.append(("discr", self.place(d["p"], seen)))
                elif k == "bin":
                    out.append(("bin", d["op"].replace("WithOverflow", ""), self.operand(d["a"], seen),
                                self.operand(d["b"], seen)))
                elif k == "un":
                    out.append(("un", d["op"], self.operand(d["a"], seen)))
                else:
                    out.append(("op", k))
        r = phi(out) if out else ("undef", l)
        if not any(_has_loop(x) for x in out):
            self.memo[l] = r
        return r


def agg_kind(k):
    a = k.get("agg")
    if a == "adt":
        return "adt:%s:%s" % (k.get("adt"), k.get("variant"))
    if a == "closure":
        return "closure:%s" % k.get("def")
    return str(a)


def phi(alts):
    flat = []
    for a in alts:
        if isinstance(a, tuple) and a and a[0] == "phi":
            flat.extend(a[1])
        else:
            flat.append(a)
    u = set(flat)
    if len(u) == 1:
        return flat[0]
    return ("phi", frozenset(u))


def project(base, path):
    """`base` followed by the projection `path`, folding projections of aggregates (a field of a
    tuple / struct / enum variant built in this function is the operand it was built from; the
    overflow flag of a checked operation is dropped) and distributing over phi."""
    if not path:
        return base
    if base[0] == "path":
        return project(base[1], base[2] + tuple(path))
    if base[0] == "phi":
        alts = []
        for a in base[1]:
            r = project(a, path)
            if r is not None and r != ("nothing",):
                alts.append(r)
        return phi(alts) if alts else ("nothing",)
    if base[0] == "agg":
        kind, ops = base[1], base[2]
        i = 0
        if path[0][0] == "as":
            if kind.startswith("adt:") and not kind.endswith(":" + str(path[0][1])):
                return ("nothing",)       # another variant: this alternative cannot be projected
            i = 1
        if i < len(path) and path[i][0] == "f" and isinstance(path[i][1], int) and path[i][1] < len(ops):
            return project(ops[path[i][1]], path[i + 1:])
        if i == len(path):
            return base
    if base[0] == "bin" and path[0] == ("f", 0):
        return project(base, path[1:])     # (value, overflowed).0 of a checked operation
    if len(base) == 4 and base[0] == "call" and base[1].endswith("::from_residual") and \
            path[0] in (("as", "Some"), ("as", "Ok")):
        return ("nothing",)         # the early return of `?` carries no payload
    if len(base) == 4 and base[0] == "call" and base[1].endswith("Try>::branch") and base[3] and \
            len(path) >= 2 and path[0] == ("as", "Continue") and path[1] == ("f", 0):
        # `x?`: the continuing value of Try::branch(x) is x's payload (Some / Ok)
        inner = base[3][0]
        for v in ("Some", "Ok"):
            r = project(inner, (("as", v), ("f", 0)) + tuple(path[2:]))
            if r != ("nothing",) and not (r[0] == "path" and r[2][:1] == (("as", v),) and inner[0] == "agg"):
                return r
        return project(inner, (("as", "Some"), ("f", 0)) + tuple(path[2:]))
    return ("path", base, tuple(path))


def subst(t, old, new):
    """t with every occurrence of subterm `old` replaced by `new`, projections re-folded."""
    if t == old:
        return new
    if isinstance(t, tuple):
        if len(t) == 3 and t[0] == "path":
            return project(subst(t[1], old, new), t[2])
        if len(t) == 2 and t[0] == "phi":
            return phi([subst(x, old, new) for x in t[1]])
        return tuple(subst(x, old, new) if isinstance(x, (tuple, frozenset)) else x for x in t)
    if isinstance(t, frozenset):
        return frozenset(subst(x, old, new) for x in t)
    return t


def _has_loop(t):
    if isinstance(t, tuple):
        if t and t[0] == "loop":
            return True
        return any(_has_loop(x) for x in t)
    if isinstance(t, frozenset):
        return any(_has_loop(x) for x in t)
    return False


def contains(term, pred):
    if pred(term):
        return True
    if isinstance(term, (tuple, frozenset)):
        return any(contains(x, pred) for x in term)
    return False


def show(t):
    if not isinstance(t, tuple):
        if isinstance(t, frozenset):
            return "{" + ", ".join(sorted(show(x) for x in t)) + "}"
        return str(t)
    if t[0] == "param":
        return t[1]
    if t[0] == "new":
        return "new@bb%d" % t[1]
    if t[0] == "path":
        return show(t[1]) + "".join((" as %s" % p[1]) if p[0] == "as" else ".%s" % p[1] for p in t[2])
    if t[0] == "call":
        return "%s(%s)" % (t[1].rsplit("::", 1)[-1], ", ".join(show(a) for a in t[3]))
    if t[0] == "phi":
        return "phi" + show(t[1])
    if t[0] == "elem":
        return "elem(%s)" % show(t[1])
    if t[0] == "guarded":
        return "%s if %s" % (show(t[2]), show(t[1]))
    if t[0] == "agg":
        return "%s(%s)" % (t[1].rsplit(":", 1)[-1] if t[1].startswith("adt:") else t[1][:40], ", ".join(show(x) for x in t[2]))
    if t[0] == "bin":
        return "(%s %s %s)" % (show(t[2]), t[1], show(t[3]))
    if t[0] == "const":
        return str(t[1])
    return repr(t)


def sub_of(term, variant):
    """i if `term` is field i of `re as variant`, else None."""
    if term[0] == "path" and term[1] == ("param", "re") and len(term[2]) == 2 and \
            term[2][0] == ("as", variant) and term[2][1][0] == "f":
        return term[2][1][1]
    return None


def arms_of(body, re_local, sym=None):
    """For every value v of `discriminant(*re)`: the blocks reachable from the function entry when every
    switch on that discriminant (the `match` itself, a later `if let Regex::X(..) = re`, an or-pattern
    arm shared by several variants) takes the edge for v. Returns ({v: first block of the arm},
    {v: sorted reachable blocks})."""
    blocks = body["mir"]["blocks"]
    discr_switch = {}
    first = None
    for bi, bb in enumerate(blocks):
        if bb["cleanup"]:
            continue
        t = bb["term"]
        if t["k"] != "switch":
            continue
        d = t["d"].get("move") or t["d"].get("copy")
        if d is None:
            continue
        for st in bb["st"]:
            if "lhs" in st and st["lhs"]["l"] == d["l"] and st["rv"]["k"] == "discr" and \
                    all(e == "*" for e in st["rv"]["p"]["p"]) and \
                    (st["rv"]["p"]["l"] == re_local or
                     (sym is not None and sym.local(st["rv"]["p"]["l"]) == ("param", "re"))):
                discr_switch[bi] = t
                if first is None:
                    first = bi
    if first is None:
        return None, None
    values = sorted({v for t in discr_switch.values() for v, _ in t["arms"]})
    entries, reach = {}, {}
    for v in values:
        arms0 = dict(discr_switch[first]["arms"])
        if v in arms0:
            entries[v] = arms0[v]
        seen = set()
        work = [0]
        while work:
            b = work.pop()
            if b in seen or b is None or b < 0 or b >= len(blocks) or blocks[b]["cleanup"]:
                continue
            seen.add(b)
            t = blocks[b]["term"]
            k = t["k"]
            if b in discr_switch:
                arms = dict(t["arms"])
                work.append(arms[v] if v in arms else t["else"])
            elif k == "goto":
                work.append(t["t"])
            elif k == "switch":
                work.extend(tg for _, tg in t["arms"])
                work.append(t["else"])
            elif k in ("call", "assert", "drop"):
                if t.get("t") is not None:
                    work.append(t["t"])
        reach[v] = sorted(seen)
    return entries, reach


def arm_calls(sym, blocks_of_arm):
    out = []
    for bi in blocks_of_arm:
        t = sym.blocks[bi]["term"]
        if t["k"] == "call":
            c = norm_path(t.get("resp") or t["f"].get("path")) or "?"
            out.append((bi, c, tuple(sym.operand(a) for a in t["args"]), t))
    return out


# --------------------------------------------------------------------------- template languages
def _closure(states, eps):
    out = set(states)
    work = list(states)
    while work:
        s = work.pop()
        for t in eps.get(s, ()):
            if t not in out:
                out.add(t)
                work.append(t)
    return frozenset(out)


def nfa_lang_equal(n1, n2, alphabet):
    """n = (start, final, eps {s: set}, edges {(s, sym): set}); language equality by lock-step
    determinisation."""
    def step(n, S, a):
        nxt = set()
        for s in S:
            nxt |= n[3].get((s, a), set())
        return _closure(nxt, n[2])
    s1 = _closure({n1[0]}, n1[2])
    s2 = _closure({n2[0]}, n2[2])
    seen = set()
    work = [(s1, s2, ())]
    while work:
        a, b, w = work.pop()
        if (a, b) in seen:
            continue
        seen.add((a, b))
        if (n1[1] in a) != (n2[1] in b):
            return False, w
        for x in alphabet:
            work.append((step(n1, a, x), step(n2, b, x), w + (x,)))
    return True, None


def expected_template(variant):
    """Reference fragment for a composite variant over symbols 0 (first sub-regex), 1 (second)."""
    S, F = "s", "f"
    if variant == "ZeroOrMore":      # R0*
        return (S, F, {S: {"m"}, "m": {F}}, {("m", 0): {"m"}}), (0,)
    if variant == "OneOrMore":       # R0 R0*
        return (S, F, {"m": {F}}, {(S, 0): {"m"}, ("m", 0): {"m"}}), (0,)
    if variant == "ZeroOrOne":       # R0 | eps
        return (S, F, {S: {F}}, {(S, 0): {F}}), (0,)
    if variant == "Concat":          # R0 R1
        return (S, F, {}, {(S, 0): {"m"}, ("m", 1): {F}}), (0, 1)
    if variant == "Or":              # R0 | R1
        return (S, F, {}, {(S, 0): {F}, (S, 1): {F}}), (0, 1)
    return None, None


COMPOSITE = ("ZeroOrMore", "OneOrMore", "ZeroOrOne", "Concat", "Or")
CURRENT = ("param", "current")
CONT = ("param", "cont")


def is_state_term(t):
    return t in (CURRENT, CONT) or t[0] == "new"


def canonical_rec_args(a):
    """(nfa, bindings, re, current, cont) of a recursive call, whether it is `add_re(nfa, bindings, ..)`
    or a worker `translate(cx, ..)` whose leading context argument(s) bundle the two."""
    ctxargs = a[:-3]
    mentions = set()
    for t in ctxargs:
        for nm in ("nfa", "bindings", "re", "current", "cont"):
            if contains(t, lambda y, nm=nm: y == ("param", nm)):
                mentions.add(nm)
    clean = not (mentions & {"re", "current", "cont"})
    nfa = ("param", "nfa") if clean and "nfa" in mentions else ("bad-context", tuple(sorted(mentions)))
    bnd = ("param", "bindings") if clean and "bindings" in mentions else ("bad-context", tuple(sorted(mentions)))
    return (nfa, bnd, a[-3], a[-2], a[-1])


# --------------------------------------------------------------------------- the rules
def check_rthompson(ctx, prog):
    lex = prog.crate(LEX)
    body = lex.body("regex_to_nfa::add_re")
    adt = lex.adt("ast::Regex")
    if not ctx.ob("R-THOMPSON", "regex_to_nfa::add_re and ast::Regex found", body is not None and adt is not None,
                  key="R-THOMPSON:anchor"):
        return
    ctx.ob("R-THOMPSON", "add_re takes (nfa, bindings, re, current, cont)", body["mir"]["argc"] == 5,
           key="R-THOMPSON:arity", where=body["span"])
    variants = [v["name"] for v in adt["variants"]]
    sym = Sym(body, ROLES_ADD_RE, crate=lex)
    entries, private = arms_of(body, 3, sym)
    # the function that contains the dispatch: add_re itself, or a private worker it delegates to
    # (inlined here once; its recursive calls remain calls)
    rec_names = {"regex_to_nfa::add_re"} | set(body.get("inlined") or ())
    if entries is None:
        # add_re is not written as a structural recursion on `re` (e.g. an explicit work stack): the
        # per-operator templates cannot be read off; operators are decided by the ops witnesses
        ctx.notes.append("R-THOMPSON: add_re does not dispatch on its `re` parameter (not a structural recursion); "
                         "the regex -> NFA stage is decided by the ops / prec / mix witness families only")
        check_add_regex(ctx, lex)
        return
    handled = 0
    templates = {}
    for idx, vname in enumerate(variants):
        key = "R-THOMPSON:%s" % vname
        if idx not in entries:
            ctx.ob("R-THOMPSON", "variant %s has its own arm in add_re" % vname, False, key=key + ":arm",
                   where=body["span"], detail="a shared `otherwise` arm cannot be checked per variant")
            continue
        handled += 1
        sym = Sym(body, ROLES_ADD_RE, crate=lex, allowed=set(private[idx]))
        calls = arm_calls(sym, private[idx])
        where = sym.blocks[entries[idx]].get("span")
        builder = [(bi, c, a) for bi, c, a, t in calls if c.startswith("nfa::NFA::") and not c.endswith("new_state")]
        rec = [(bi, c, canonical_rec_args(a)) for bi, c, a, t in calls if c in rec_names and len(a) >= 4]
        # every builder call and recursive call works on the same automaton
        for bi, c, a in builder + rec:
            ctx.ob("R-THOMPSON", "%s: %s is applied to the automaton passed in" % (vname, c.rsplit("::", 1)[-1]),
                   a[0] == ("param", "nfa"), key=key + ":nfa", where=where)
        for bi, c, a in rec:
            ctx.ob("R-THOMPSON", "%s: the recursive call passes the same bindings" % vname,
                   a[1] == ("param", "bindings"), key=key + ":bindings", where=where)
        if vname in COMPOSITE:
            templates[vname] = check_composite(ctx, vname, key, where, builder, rec)
        elif vname == "Var":
            ok = len(rec) == 1 and not builder and rec[0][2][3] == CURRENT and rec[0][2][4] == CONT
            ctx.ob("R-THOMPSON", "Var: the bound regex is built in place, between `current` and `cont` "
                   "(one recursive call, no shared fragment)", ok, key=key + ":shape", where=where,
                   detail=[(c, [show(x) for x in a]) for _, c, a in builder + rec])
            if rec:
                t = rec[0][2][2]
                looked = contains(t, is_binding_lookup)
                ctx.ob("R-THOMPSON", "Var: the regex built is `bindings[var]`", looked, key=key + ":lookup",
                       where=where, detail=show(t))
        elif vname in ("Char", "Any", "EndOfInput"):
            meth = {"Char": "add_char_transition", "Any": "add_any_transition",
                    "EndOfInput": "add_end_of_input_transition"}[vname]
            ok = len(builder) == 1 and not rec and builder[0][1].endswith("::" + meth) and \
                builder[0][2][1] == CURRENT and builder[0][2][-1] == CONT
            if ok and vname == "Char":
                ok = sub_of(builder[0][2][2], "Char") == 0
            ctx.ob("R-THOMPSON", "%s: exactly one %s(current, %scont)" % (
                vname, meth, "the character, " if vname == "Char" else ""), ok, key=key + ":shape",
                where=where, detail=[(c, [show(x) for x in a]) for _, c, a in builder + rec])
        elif vname in ("Builtin", "Diff"):
            ok = len(builder) == 1 and not rec and builder[0][1].endswith("::add_range_transitions") and \
                builder[0][2][1] == CURRENT and builder[0][2][3] == CONT
            ctx.ob("R-THOMPSON", "%s: exactly one add_range_transitions(current, class, cont)" % vname, ok,
                   key=key + ":shape", where=where,
                   detail=[(c, [show(x) for x in a]) for _, c, a in builder + rec])
            if ok:
                m = builder[0][2][2]
                if vname == "Diff":
                    while m[0] == "call" and (m[1].endswith("::unwrap_or_else") or m[1].endswith("::expect")
                                              or m[1].endswith("::unwrap")) and m[3]:
                        m = m[3][0]       # `regex_to_range_map(..)` may report 'not a class' by value
                    if m[0] == "path" and m[2] in ((("as", "Ok"), ("f", 0)), (("as", "Some"), ("f", 0))):
                        m = m[1]
                    good = m[0] == "call" and m[1] == "regex_to_nfa::regex_to_range_map" and \
                        m[3] == (("param", "bindings"), ("param", "re"))
                    ctx.ob("R-THOMPSON", "Diff: the class is regex_to_range_map(bindings, re) of the whole "
                           "`#` expression", good, key=key + ":class", where=where, detail=show(m))
                else:
                    good = class_of_builtin(m, "Builtin", sym)
                    ctx.ob("R-THOMPSON", "Builtin: the class is the table found for the name "
                           "(get_builtin_regex(name).get_ranges())", good, key=key + ":class", where=where,
                           detail=show(m))
        elif vname == "String":
            check_string_arm(ctx, sym, key, where, builder, rec, private[idx])
        elif vname == "CharSet":
            as_class = len(builder) == 1 and not rec and builder[0][1].endswith("::add_range_transitions")
            if as_class:
                # the set is handled like `#`: its class (R-CLASS) is added whole
                m = builder[0][2][2]
                while m[0] == "call" and (m[1].endswith("::unwrap_or_else") or m[1].endswith("::expect")
                                          or m[1].endswith("::unwrap")) and m[3]:
                    m = m[3][0]
                if m[0] == "path" and m[2] in ((("as", "Ok"), ("f", 0)), (("as", "Some"), ("f", 0))):
                    m = m[1]
                good = builder[0][2][1] == CURRENT and builder[0][2][3] == CONT and m[0] == "call" and \
                    m[1] == "regex_to_nfa::regex_to_range_map" and m[3] == (("param", "bindings"), ("param", "re"))
                ctx.ob("R-THOMPSON", "CharSet: exactly one add_range_transitions(current, regex_to_range_map(bindings, "
                       "re), cont)", good, key=key + ":shape", where=where,
                       detail=[(c, [show(x) for x in a]) for _, c, a in builder])
            else:
                check_charset_arm(ctx, sym, key, where, builder, rec, calls, private[idx], "add_re")
        else:
            ctx.ob("R-THOMPSON", "variant %s of ast::Regex is known to the rule" % vname, False, key=key + ":unknown",
                   where=where, detail="a new regex form: extend lexlint/rules_thompson.py with its language")
    ctx.floor("variants of ast::Regex with their own arm in add_re", handled, 13)
    check_composition(ctx, templates, body["span"])
    check_add_regex(ctx, lex)


def is_binding_lookup(x):
    """a call (get, index, ...) that takes the bindings map and the variable's name"""
    return isinstance(x, tuple) and len(x) == 4 and x[0] == "call" and len(x[3]) >= 2 and \
        x[3][0] == ("param", "bindings") and sub_of(x[3][1], "Var") == 0


def re_dependencies(term, sym=None):
    """The parts of the `re` parameter a term is computed from: set of projection paths (() = whole).
    Collections built by a constructor and filled by push/insert/extend are followed into what was
    added to them."""
    out = set()
    seen = set()

    def walk(t):
        if isinstance(t, tuple):
            if t == ("param", "re"):
                out.add(())
                return
            if len(t) == 3 and t[0] == "path" and t[1] == ("param", "re"):
                out.add(t[2][:2])
                return
            if sym is not None and len(t) == 4 and t[0] == "call" and t not in seen:
                seen.add(t)
                for v in sym.contents(t):
                    walk(v)
            for x in t:
                walk(x)
        elif isinstance(t, frozenset):
            for x in t:
                walk(x)
    walk(term)
    return out


def class_of_builtin(m, variant, sym=None):
    """The class is a RangeMap computed from the built-in's *name* and from nothing else of `re`
    (which table belongs to which name is R-MAP's business, C13)."""
    deps = re_dependencies(m, sym)
    builds_map = contains(m, lambda x: _is_call(x, "RangeMap::from_non_overlapping_sorted_ranges")
                          or _is_call(x, "RangeMap::new") or _is_call(x, "RangeMap::insert_ranges"))
    return deps == {(("as", variant), ("f", 0))} and builds_map


def check_composite(ctx, vname, key, where, builder, rec):
    edges = []      # (src, label, tgt) label: "eps" or sub index
    bad = []
    for bi, c, a in builder:
        if c.endswith("::add_empty_transition"):
            edges.append((a[1], "eps", a[2]))
        else:
            bad.append(c)
    for bi, c, a in rec:
        i = sub_of(a[2], vname)
        if i is None:
            bad.append("add_re on %s" % show(a[2]))
        else:
            edges.append((a[3], i, a[4]))
    desc = ["%s -%s-> %s" % (show(s), "eps" if l == "eps" else "R%d" % l, show(t)) for s, l, t in edges]
    ctx.ob("R-THOMPSON", "%s: the arm consists of empty transitions and recursive calls on the variant's "
           "own sub-regexes" % vname, not bad, key=key + ":calls", where=where, detail=bad)
    ok_states = all(is_state_term(s) and is_state_term(t) for s, l, t in edges)
    ctx.ob("R-THOMPSON", "%s: every edge runs between `current`, `cont` and states the arm created" % vname,
           ok_states, key=key + ":states", where=where, detail=desc)
    if not ok_states:
        return None
    into_current = [d for (s, l, t), d in zip(edges, desc) if t == CURRENT]
    out_of_cont = [d for (s, l, t), d in zip(edges, desc) if s == CONT]
    same_ends = [d for (s, l, t), d in zip(edges, desc) if l != "eps" and s == t]
    discipline = not into_current and not out_of_cont and not same_ends
    info = {"edges": edges, "desc": desc, "discipline": discipline,
            "why": {"into current": into_current, "out of cont": out_of_cont, "same ends": same_ends},
            "where": where}
    eps = {}
    tr = {}
    for s, l, t in edges:
        if l == "eps":
            eps.setdefault(s, set()).add(t)
        else:
            tr.setdefault((s, l), set()).add(t)
    exp, alphabet = expected_template(vname)
    eq, word = nfa_lang_equal((CURRENT, CONT, eps, tr), exp, alphabet)
    ctx.ob("R-THOMPSON", "%s: with recursive calls read as single edges, the words from `current` to `cont` "
           "are exactly the documented language of the operator" % vname, eq, key=key + ":language",
           where=where, detail={"edges": desc, "distinguishing word": ["R%d" % x for x in (word or ())]})
    ctx.count("composite arms of add_re decided by template equivalence")
    info["local"] = eq
    return info


OPS = {"ZeroOrMore": ("*", 1), "OneOrMore": ("+", 1), "ZeroOrOne": ("?", 1), "Concat": ("", 2), "Or": ("|", 2)}
EXPANSION_SIZE = 6


def trees(n, memo={}):
    """All regex trees with exactly n nodes over leaves a, b and the five operators."""
    if n in memo:
        return memo[n]
    out = []
    if n == 1:
        out = [("a",), ("b",)]
    else:
        for op, (_, ar) in OPS.items():
            if ar == 1:
                out += [(op, t) for t in trees(n - 1)]
            else:
                for k in range(1, n - 1):
                    out += [(op, l, r) for l in trees(k) for r in trees(n - 1 - k)]
    memo[n] = out
    return out


def tree_str(t):
    if len(t) == 1:
        return t[0]
    sym, ar = OPS[t[0]]
    if ar == 1:
        return "(%s)%s" % (tree_str(t[1]), sym)
    return "(%s%s%s)" % (tree_str(t[1]), " " if sym == "" else " | ", tree_str(t[2]))


def instantiate(tree, s, e, templates, g, fresh):
    """Add to graph g = (eps, edges) the fragment the templates build for `tree` between s and e."""
    if len(tree) == 1:
        g[1].setdefault((s, tree[0]), set()).add(e)
        return
    names = {CURRENT: s, CONT: e}
    for a, l, b in templates[tree[0]]:
        for x in (a, b):
            if x not in names:
                fresh[0] += 1
                names[x] = fresh[0]
    for a, l, b in templates[tree[0]]:
        if l == "eps":
            g[0].setdefault(names[a], set()).add(names[b])
        else:
            instantiate(tree[1 + l], names[a], names[b], templates, g, fresh)


def reference_templates():
    out = {}
    for v in COMPOSITE:
        (S, F, eps, tr), _ = expected_template(v)
        names = {S: CURRENT, F: CONT, "m": ("new", 0)}
        edges = []
        for a, ts in eps.items():
            edges += [(names[a], "eps", names[t]) for t in ts]
        for (a, l), ts in tr.items():
            edges += [(names[a], l, names[t]) for t in ts]
        out[v] = edges
    # the reference keeps sub-fragments apart with fresh states around every operand
    fresh = {}
    for v, edges in out.items():
        new = []
        k = 10
        for a, l, b in edges:
            if l == "eps":
                new.append((a, l, b))
            else:
                k += 2
                new += [(a, "eps", ("new", k)), (("new", k), l, ("new", k + 1)), (("new", k + 1), "eps", b)]
        fresh[v] = new
    return fresh


def check_composition(ctx, templates, where):
    """Induction step or, failing that, bounded composition of the extracted templates."""
    if any(templates.get(v) is None for v in COMPOSITE):
        ctx.notes.append("R-THOMPSON: composition not examined (an operator's arm has no usable template)")
        return
    disciplined = all(templates[v]["discipline"] for v in COMPOSITE)
    local = all(templates[v]["local"] for v in COMPOSITE)
    if disciplined and local:
        ctx.ob("R-THOMPSON", "induction: every operator's fragment can be entered only at `current` and left only "
               "at `cont` (no edge into `current`, none out of `cont`, distinct ends for recursive calls), so "
               "each recursive call acts as one edge in its caller and the per-operator language results "
               "compose for regexes of any depth", True, key="R-THOMPSON:induction", where=where)
    ext = {v: templates[v]["edges"] for v in COMPOSITE}
    ref = reference_templates()
    n = 0
    bad = None
    for size in range(1, EXPANSION_SIZE + 1):
        for t in trees(size):
            g1 = ({}, {})
            g2 = ({}, {})
            instantiate(t, "S", "E", ext, g1, [0])
            instantiate(t, "S", "E", ref, g2, [0])
            eq, word = nfa_lang_equal(("S", "E", g1[0], g1[1]), ("S", "E", g2[0], g2[1]), ("a", "b"))
            n += 1
            if not eq:
                bad = (t, word)
                break
        if bad:
            break
    ctx.count("regex trees (<= %d nodes, 5 operators, 2 leaves) on which the extracted templates were composed" % EXPANSION_SIZE, n)
    detail = None
    if bad:
        detail = {"regex": tree_str(bad[0]), "word on which the built automaton and the documented language differ":
                  "".join(bad[1]) or "(empty)",
                  "operators whose fragment is not closed": {v: templates[v]["why"] for v in COMPOSITE
                                                             if not templates[v]["discipline"]}}
    ctx.ob("R-THOMPSON", "the operators' fragments, composed as add_re composes them, give the documented "
           "language for every regex tree of up to %d nodes" % EXPANSION_SIZE, bad is None,
           key="R-THOMPSON:composition", where=where, detail=detail)
    if not disciplined and bad is None:
        ctx.notes.append("R-THOMPSON: an operator's fragment is not closed (%s); the induction argument does not "
                         "apply, composition was established for trees of up to %d nodes only" % (
                             ", ".join(v for v in COMPOSITE if not templates[v]["discipline"]), EXPANSION_SIZE))


def check_string_arm(ctx, sym, key, where, builder, rec, arm_blocks):
    ok_calls = bool(builder) and not rec and all(c.endswith("::add_char_transition") for _, c, a in builder)
    ctx.ob("R-THOMPSON", "String: the arm adds character transitions only", ok_calls, key=key + ":calls",
           where=where, detail=[c for _, c, a in builder + rec])
    if not ok_calls:
        return
    all_src = [a[1] for _, c, a in builder]
    all_tgt = [a[3] for _, c, a in builder]
    ctx.ob("R-THOMPSON", "String: the chain starts at `current` (some transition's source is `current` or the "
           "previous transition's target)", any(contains(x, lambda y: y == CURRENT) for x in all_src),
           key=key + ":source", where=where, detail=[show(x) for x in all_src])
    ctx.ob("R-THOMPSON", "String: the chain can end at `cont` (targets are fresh states or `cont`)",
           any(contains(x, lambda y: y == CONT) for x in all_tgt) and
           all(all(is_state_term(alt) or alt == ("nothing",) for alt in (x[1] if x[0] == "phi" else [x])) for x in all_tgt),
           key=key + ":target", where=where, detail=[show(x) for x in all_tgt])
    for bi, c, a in builder:
        src, ch, tgt = a[1], a[2], a[3]
        from_iter = contains(ch, lambda x: isinstance(x, tuple) and len(x) == 2 and x[0] == "elem")
        from_str = contains(ch, lambda x: isinstance(x, tuple) and len(x) == 2 and x[0] == "elem" and contains(
            x[1], lambda y: y == ("path", ("param", "re"), (("as", "String"), ("f", 0)))))
        ctx.ob("R-THOMPSON", "String: the label of each transition is a character taken from the string's "
               "own iterator", from_iter and from_str, key=key + ":label", where=where, detail=show(ch))
        ctx.ob("R-THOMPSON", "String: no transition enters `current`",
               not contains(tgt, lambda x: x == CURRENT), key=key + ":interface", where=where, detail=show(tgt))
        # last-character test: `cont` is chosen exactly when the iterator has no further character
        blocks = sym.blocks
        recognised = False
        for b in arm_blocks:
            t = blocks[b]["term"]
            if t["k"] != "switch" or len(t["arms"]) != 1 or t["arms"][0][0] != 0:
                continue
            d = t["d"].get("move") or t["d"].get("copy")
            if d is None:
                continue
            cond = sym.local(d["l"])
            if cond[0] == "call" and cond[1].endswith("Option::is_some") and \
                    contains(cond, lambda x: isinstance(x, tuple) and len(x) == 4 and x[0] == "call"
                             and x[1].endswith("Peekable::peek")):
                false_b, true_b = t["arms"][0][1], t["else"]
                f_cont = any("lhs" in st and st["rv"]["k"] == "use" and sym.operand(st["rv"]["o"]) == CONT
                             for st in blocks[false_b]["st"])
                tt = blocks[true_b]["term"]
                t_new = tt["k"] == "call" and (norm_path(tt.get("resp") or tt["f"].get("path")) or "").endswith("NFA::new_state")
                if f_cont and t_new:
                    recognised = True
        if recognised:
            ctx.ob("R-THOMPSON", "String: `cont` is the target exactly when the iterator has no further "
                   "character (peek().is_some() selects a fresh state, otherwise `cont`)", True,
                   key=key + ":last", where=where)
        else:
            ctx.notes.append("R-THOMPSON String: the last-character test is not in the peek() shape; that clause "
                             "is decided on witnesses only")


def check_charset_arm(ctx, sym, key, where, builder, rec, calls, arm_blocks, fn):
    """Every transition inside the loop over the set's items goes from `current` to `cont` and is
    labelled with the item's own payload."""
    ok_calls = bool(builder) and not rec and all(
        c.endswith("::add_char_transition") or c.endswith("::add_range_transition") for _, c, a in builder)
    ctx.ob("R-THOMPSON", "CharSet: the arm adds character and range transitions only", ok_calls,
           key=key + ":calls", where=where, detail=[c for _, c, a in builder + rec])
    if not ok_calls:
        return
    kinds = set()
    for bi, c, a in builder:
        ctx.ob("R-THOMPSON", "CharSet: each transition runs from `current` to `cont`",
               a[1] == CURRENT and a[-1] == CONT, key=key + ":ends", where=where,
               detail=[show(x) for x in a])
        if c.endswith("::add_char_transition"):
            kinds.add("Char")
            ok = item_field(a[2], "Char") == 0
            ctx.ob("R-THOMPSON", "CharSet: a single character item is added as that character", ok,
                   key=key + ":char", where=where, detail=show(a[2]))
        else:
            kinds.add("Range")
            ok = item_field(a[2], "Range") == 0 and item_field(a[3], "Range") == 1
            ctx.ob("R-THOMPSON", "CharSet: a range item is added as (start, end) in that order", ok,
                   key=key + ":range", where=where, detail=[show(a[2]), show(a[3])])
    # add_char_transition panics on a repeated (state, char, next); a set may repeat a character
    loops, dom, preds = cfg.natural_loops(sym.blocks)
    for bi, c, a in builder:
        if c.endswith("::add_char_transition"):
            guards = [gb for gb, gc, ga, gt in calls if gc.endswith("HashSet::insert") and ga[1] == a[2]]
            ctx.ob("R-THOMPSON", "CharSet: a repeated character is added once (the transition is guarded by "
                   "`seen.insert(c)` being true; NFA::add_char_transition asserts that the edge is new)",
                   any(true_edge_dominates(sym.blocks, dom, g, bi) for g in guards), key=key + ":dedupe",
                   where=where)
    ctx.ob("R-THOMPSON", "CharSet: both kinds of item (character, range) are added", kinds == {"Char", "Range"},
           key=key + ":kinds", where=where, detail=sorted(kinds))
    # the items come from the set's own list
    src_ok = bool(builder) and all(
        contains(a[2], lambda x: isinstance(x, tuple) and len(x) == 2 and x[0] == "elem" and contains(
            x[1], lambda y: isinstance(y, tuple) and y[:2] == ("path", ("param", "re")) and y[2][0] == ("as", "CharSet")))
        for _, c, a in builder)
    ctx.ob("R-THOMPSON", "CharSet: the loop runs over the set's own items", src_ok, key=key + ":items", where=where)


def item_field(term, variant):
    """field index if `term` is `<item> as variant . i` where item is an element of an iterated collection"""
    term = unguard(term)
    if term[0] == "path" and len(term[2]) >= 2 and term[2][-2] == ("as", variant) and term[2][-1][0] == "f":
        base = ("path", term[1], term[2][:-2]) if len(term[2]) > 2 else term[1]
        if unguard(base)[0] == "elem":
            return term[2][-1][1]
    return None


def check_add_regex(ctx, lex):
    """The top of the induction: NFA::add_regex builds the rule's regex between two different fresh
    states, the second of which it makes accepting, and links the automaton's initial state to the
    first by an empty transition."""
    b = lex.body("nfa::NFA::add_regex")
    if not ctx.ob("R-THOMPSON", "NFA::add_regex found", b is not None, key="R-THOMPSON:add_regex:anchor"):
        return
    roles = {1: "nfa", 2: "bindings", 3: "re", 4: "right_ctx", 5: "value"}
    sym = Sym(b, roles, crate=lex)
    calls = []
    for bi, bb in enumerate(sym.blocks):
        if bb["cleanup"]:
            continue
        t = bb["term"]
        if t["k"] == "call":
            c = norm_path(t.get("resp") or t["f"].get("path")) or "?"
            calls.append((bi, c, tuple(sym.operand(a) for a in t["args"])))
    rec = [x for x in calls if x[1] == "regex_to_nfa::add_re"]
    acc = [x for x in calls if x[1].endswith("NFA::make_state_accepting")]
    eps = [x for x in calls if x[1].endswith("NFA::add_empty_transition")]
    ok = len(rec) == 1 and len(acc) == 1 and len(eps) == 1
    ctx.ob("R-THOMPSON", "add_regex: one add_re, one make_state_accepting, one empty transition", ok,
           key="R-THOMPSON:add_regex:calls", where=b["span"], detail=[c for _, c, a in calls])
    if not ok:
        return
    a = rec[0][2]
    s, e = a[3], a[4]
    ctx.ob("R-THOMPSON", "add_regex: the regex is built between two different fresh states",
           s[0] == "new" and e[0] == "new" and s != e, key="R-THOMPSON:add_regex:fresh", where=b["span"],
           detail=[show(s), show(e)])
    ctx.ob("R-THOMPSON", "add_regex: the end state of the fragment is the state made accepting (with the "
           "rule's value and right context)", acc[0][2][1] == e and acc[0][2][2] == ("param", "value")
           and acc[0][2][3] == ("param", "right_ctx"), key="R-THOMPSON:add_regex:accepting", where=b["span"],
           detail=[show(x) for x in acc[0][2]])
    init = eps[0][2][1]
    ctx.ob("R-THOMPSON", "add_regex: the automaton's initial state is linked to the start of the fragment by an "
           "empty transition", eps[0][2][2] == s and init[0] == "call" and init[1].endswith("NFA::initial_state"),
           key="R-THOMPSON:add_regex:link", where=b["span"], detail=[show(x) for x in eps[0][2]])
    ctx.ob("R-THOMPSON", "add_regex: the regex and bindings passed on are the rule's own",
           a[1] == ("param", "bindings") and a[2] == ("param", "re") and a[0] == ("param", "nfa"),
           key="R-THOMPSON:add_regex:args", where=b["span"])


# --------------------------------------------------------------------------- class algebra dispatch
def check_rclassdispatch(ctx, prog):
    """regex_to_range_map: per variant, which class operation is applied to which operand."""
    lex = prog.crate(LEX)
    body = lex.body("regex_to_nfa::regex_to_range_map")
    adt = lex.adt("ast::Regex")
    if not ctx.ob("R-CLASS", "regex_to_nfa::regex_to_range_map found", body is not None and adt is not None,
                  key="R-CLASS:anchor"):
        return
    variants = [v["name"] for v in adt["variants"]]
    # out-parameter style: the classes are accumulated into a `&mut RangeMap` handed down the recursion
    # (`add(re, &mut map)`), instead of being returned and combined. "Which operation on which operand"
    # then is a statement about the order of effects on one shared map, which this rule's per-arm reading
    # of returned values does not cover: not applicable, the witnesses (TV on the classes, built-ins and
    # precedence families) decide the definitions they contain.
    raw = lex.raw_body("regex_to_nfa::regex_to_range_map") if hasattr(lex, "raw_body") else None
    for cb in ([raw] if raw is not None else []):
        for bb in cb["mir"]["blocks"]:
            t = bb["term"]
            if bb["cleanup"] or t["k"] != "call":
                continue
            c = norm_path(t.get("resp") or t["f"].get("path")) or ""
            hb = lex.raw_body(c) if c.startswith("regex_to_nfa::") and c != "regex_to_nfa::regex_to_range_map" else None
            if hb is None:
                continue
            sig = hb.get("sig_in") or []
            rec = any((norm_path(b2["term"].get("resp") or b2["term"]["f"].get("path")) or "") == c
                      for b2 in hb["mir"]["blocks"] if b2["term"]["k"] == "call" and not b2["cleanup"])
            if rec and any(str(x).startswith("&mut") and "RangeMap" in str(x) for x in sig):
                ctx.notes.append("R-CLASS: not applicable - regex_to_range_map accumulates classes into an "
                                 "out-parameter (%s); class expressions are decided on witnesses only" % c)
                ctx.ob("R-CLASS", "regex_to_range_map computes classes by accumulation into an out-parameter: the "
                       "per-variant rule is not applicable (recorded, not a violation)", True,
                       key="R-CLASS:not-applicable")
                # what remains decidable per arm: the forms that are not classes are rejected
                hbody = lex.body(c) or hb
                hsym = Sym(hbody, {1: "bindings", 2: "re", 3: "map"}, crate=lex)
                hentries, hprivate = arms_of(hbody, 2, hsym)
                handled = 0
                if hentries is not None:
                    for idx, vname in enumerate(variants):
                        if idx not in hentries:
                            continue
                        handled += 1
                        if vname not in ("String", "ZeroOrMore", "OneOrMore", "ZeroOrOne", "Concat", "EndOfInput"):
                            continue
                        asym = Sym(hbody, {1: "bindings", 2: "re", 3: "map"}, crate=lex, allowed=set(hprivate[idx]))
                        acalls = arm_calls(asym, hprivate[idx])
                        diverges = any(c_.endswith("panic_fmt") or "panic" in c_ for bi, c_, a, t_ in acalls)
                        muts = [c_ for bi, c_, a, t_ in acalls if c_.startswith("range_map::RangeMap::")]
                        ctx.ob("R-CLASS", "%s is rejected inside a class expression (the arm panics and adds nothing)"
                               % vname, diverges and not muts, key="R-CLASS:%s:reject" % vname,
                               where=hbody["mir"]["blocks"][hentries[idx]].get("span"))
                ctx.floor("variants of ast::Regex handled by regex_to_range_map", handled, 13)
                return
    sym = Sym(body, ROLES_R2RM, crate=lex)
    entries, private = arms_of(body, 2, sym)
    if not ctx.ob("R-CLASS", "regex_to_range_map dispatches on the variant of `re`", entries is not None,
                  key="R-CLASS:dispatch", where=body["span"]):
        return
    blocks = sym.blocks

    def returned(idx):
        """terms assigned to the return place inside the arm (the evaluator is restricted to the arm)"""
        t = sym.local(0)
        if t[0] == "undef":
            return []
        return list(t[1]) if t[0] == "phi" else [t]

    def unq(term):
        """x for `x?` / `x.unwrap()`-style payload paths of a call result"""
        if term[0] == "path" and term[2] in ((("as", "Ok"), ("f", 0)), (("as", "Some"), ("f", 0))) and \
                term[1][0] == "call":
            return term[1]
        return term

    def rec_on(term, variant, i):
        term = unq(term)
        return term[0] == "call" and term[1] == "regex_to_nfa::regex_to_range_map" and \
            term[3][0] == ("param", "bindings") and sub_of(term[3][1], variant) == i

    def classify_returns(ret):
        """(class terms, error returns, propagated errors) among what the arm returns: the function may
        return the class directly or wrapped in Ok / Some, and signal 'not a class' by Err / None"""
        oks, errs, props = [], [], []
        for r in ret:
            if r[0] == "agg" and r[1] in ("adt:std::result::Result:Ok", "adt:std::option::Option:Some") and r[2]:
                oks.append(r[2][0])
            elif r[0] == "agg" and r[1] in ("adt:std::result::Result:Err", "adt:std::option::Option:None"):
                errs.append(r)
            elif r[0] == "call" and r[1].endswith("::from_residual"):
                props.append(r)
            else:
                oks.append(r)
        return oks, errs, props

    def is_new_map(term):
        return term[0] == "call" and term[1].endswith("RangeMap::new")

    def as_u32_of(term, want):
        return term == want

    handled = 0
    uses_error_value = []
    for idx, vname in enumerate(variants):
        if idx not in entries:
            continue
        key = "R-CLASS:%s" % vname
        where = blocks[entries[idx]].get("span")
        sym = Sym(body, ROLES_R2RM, crate=lex, allowed=set(private[idx]))
        calls = arm_calls(sym, private[idx])
        ret = returned(idx)
        muts = [(bi, c, a) for bi, c, a, t in calls if c.startswith("range_map::RangeMap::") and
                c.rsplit("::", 1)[-1] in ("insert", "insert_ranges", "remove_ranges")]
        diverges = any(c.endswith("panic_fmt") or "panic" in c for bi, c, a, t in calls)
        oks, errs, props = classify_returns(ret)
        if vname in ("String", "ZeroOrMore", "OneOrMore", "ZeroOrOne", "Concat", "EndOfInput"):
            rejected = (diverges and not ret) or (bool(errs) and not oks)
            if errs and not oks:
                uses_error_value.append(vname)
            ctx.ob("R-CLASS", "%s is rejected inside a class expression (the arm panics, or returns an error "
                   "value and no class)" % vname, rejected, key=key + ":reject", where=where,
                   detail=[show(r)[:120] for r in ret])
            handled += 1
            continue
        ctx.ob("R-CLASS", "%s: the arm returns a class" % vname, len(oks) == 1 and not errs and
               (not diverges or vname in ("Var", "Builtin")),
               key=key + ":returns", where=where, detail=[show(r) for r in ret])
        if len(oks) != 1:
            continue
        r = oks[0]
        handled += 1
        if vname in ("Or", "Diff"):
            op = "insert_ranges" if vname == "Or" else "remove_ranges"
            ok = len(muts) == 1 and muts[0][1].endswith("::" + op)
            ctx.ob("R-CLASS", "%s: exactly one class operation, %s" % (vname, op), ok, key=key + ":op",
                   where=where, detail=[c for _, c, a in muts])
            if not ok:
                continue
            a = muts[0][2]
            left, right = a[0], a[1]
            if vname == "Or":
                # commutative: either operand may be the accumulator
                l_i = 0 if rec_on(left, "Or", 0) else (1 if rec_on(left, "Or", 1) else None)
                r_ok = right[0] == "call" and right[1].endswith("RangeMap::into_iter") and l_i is not None and \
                    rec_on(right[3][0], "Or", 1 - l_i)
                ctx.ob("R-CLASS", "Or: the union is of the classes of the two operands", l_i is not None and r_ok,
                       key=key + ":operands", where=where, detail=[show(left), show(right)])
            else:
                ctx.ob("R-CLASS", "Diff: the class of the right operand is removed from the class of the left "
                       "operand (not the other way round)", rec_on(left, "Diff", 0) and rec_on(right, "Diff", 1),
                       key=key + ":operands", where=where, detail=[show(left), show(right)])
            ctx.ob("R-CLASS", "%s: the class returned is the one the operation was applied to" % vname,
                   r == left, key=key + ":result", where=where, detail=[show(r), show(left)])
        elif vname == "Var":
            ok = r[0] == "call" and r[1] == "regex_to_nfa::regex_to_range_map" and r[3][0] == ("param", "bindings") \
                and contains(r[3][1], is_binding_lookup)
            ctx.ob("R-CLASS", "Var: the class of `bindings[var]`", ok and not muts, key=key + ":lookup", where=where,
                   detail=show(r))
        elif vname == "Builtin":
            ctx.ob("R-CLASS", "Builtin: the table found for the name", class_of_builtin(r, "Builtin", sym) and not muts,
                   key=key + ":class", where=where, detail=show(r))
        elif vname == "Char":
            want = ("path", ("param", "re"), (("as", "Char"), ("f", 0)))
            ok = is_new_map(r) and len(muts) == 1 and muts[0][1].endswith("::insert") and muts[0][2][0] == r \
                and muts[0][2][1] == want and muts[0][2][2] == want
            ctx.ob("R-CLASS", "Char: the one-character class [c, c]", ok, key=key + ":class", where=where,
                   detail=[[show(x) for x in m[2]] for m in muts])
        elif vname == "Any":
            ok = is_new_map(r) and len(muts) == 1 and muts[0][1].endswith("::insert") and muts[0][2][0] == r \
                and muts[0][2][1] == ("const", 0) and muts[0][2][2] in (("const", 0x10FFFF), ("const", "'\\u{10ffff}'"))
            ctx.ob("R-CLASS", "Any: the class [0, char::MAX]", ok, key=key + ":class", where=where,
                   detail=[[show(x) for x in m[2]] for m in muts])
        elif vname == "CharSet" and _is_call(r, "RangeMap::from_non_overlapping_sorted_ranges") and not muts:
            # the class is built from a list prepared by the arm (sorted, coalesced); that the list is the
            # union of the items is arithmetic over end points, which no rule of this family decides
            deps = re_dependencies(r, sym)
            ctx.ob("R-CLASS", "CharSet: the list the class is built from is computed from the set's own items", 
                   any(p_ and p_[0] == ("as", "CharSet") for p_ in deps), key=key + ":class", where=where,
                   detail=sorted(map(str, deps)))
            ctx.notes.append("R-CLASS: CharSet builds its class from a prepared list of ranges "
                             "(from_non_overlapping_sorted_ranges); the union of the items is not decided "
                             "structurally, only on the witness definitions")
        elif vname == "CharSet":
            ok = is_new_map(r) and bool(muts) and all(m[1].endswith("::insert") and m[2][0] == r for m in muts)
            ctx.ob("R-CLASS", "CharSet: items are inserted into one fresh class, which is returned", ok,
                   key=key + ":class", where=where)
            kinds = set()
            for bi, c, a in muts:
                lo, hi = a[1], a[2]
                # the bounds may be computed first (`let (s, e) = match item {..}`) and inserted once:
                # every alternative of the lower bound is the character / the range's start, every
                # alternative of the upper bound the character / the range's end
                los = list(lo[1]) if lo[0] == "phi" else [lo]
                his = list(hi[1]) if hi[0] == "phi" else [hi]
                ok_lo = all(item_field(x, "Char") == 0 or item_field(x, "Range") == 0 for x in los)
                ok_hi = all(item_field(x, "Char") == 0 or item_field(x, "Range") == 1 for x in his)
                if ok_lo and ok_hi:
                    for x in los + his:
                        if item_field(x, "Char") == 0:
                            kinds.add("Char")
                    if any(item_field(x, "Range") == 0 for x in los) and any(item_field(x, "Range") == 1 for x in his):
                        kinds.add("Range")
                else:
                    ctx.ob("R-CLASS", "CharSet: an item is inserted as [c, c] or [start, end]", False,
                           key=key + ":item", where=where, detail=[show(lo), show(hi)])
            ctx.ob("R-CLASS", "CharSet: both kinds of item (character, range) are inserted",
                   kinds == {"Char", "Range"}, key=key + ":kinds", where=where, detail=sorted(kinds))
        else:
            ctx.ob("R-CLASS", "variant %s of ast::Regex is known to the rule" % vname, False, key=key + ":unknown",
                   where=where)
    if uses_error_value:
        # 'not a class' is reported by value: the caller (add_re's `#` arm) must turn it into a rejection
        ab = lex.body("regex_to_nfa::add_re")
        ok = False
        if ab is not None:
            asym = Sym(ab, ROLES_ADD_RE, crate=lex)
            for bi, c, a in asym.all_calls():
                if a and contains(a[0], lambda y: _is_call(y, "regex_to_nfa::regex_to_range_map")):
                    if c.endswith("::expect") or c.endswith("::unwrap"):
                        ok = True
                    if c.endswith("::unwrap_or_else") and len(a) == 2 and a[1][0] == "agg" and \
                            a[1][1].startswith("closure:"):
                        from .rules_src import diverges_after
                        cb = lex.body(norm_path(a[1][1][len("closure:"):]))
                        if cb is not None and diverges_after(cb["mir"]["blocks"], 0):
                            ok = True
        ctx.ob("R-CLASS", "a `#` operand that is not a class is rejected: add_re panics on the error value that "
               "regex_to_range_map returns for %s" % ", ".join(uses_error_value), ok, key="R-CLASS:reject:caller",
               where=body["span"])
    ctx.floor("variants of ast::Regex handled by regex_to_range_map", handled, 13)


# --------------------------------------------------------------------------- builder / accessor agreement
NFA_WRITERS = {
    "add_char_transition": "char_transitions", "add_range_transition": "range_transitions",
    "add_range_transitions": "range_transitions", "add_empty_transition": "empty_transitions",
    "add_any_transition": "any_transitions", "add_end_of_input_transition": "end_of_input_transitions",
    "make_state_accepting": "accepting",
}
NFA_READERS = {
    "char_transitions": "char_transitions", "range_transitions": "range_transitions",
    "any_transitions": "any_transitions", "end_of_input_transitions": "end_of_input_transitions",
    "next_empty_states": "empty_transitions", "get_accepting_state": "accepting",
}


def state_fields_touched(body, adt_prefix):
    out = set()

    def visit(x):
        if isinstance(x, dict):
            f = x.get("f")
            if isinstance(f, str) and f.startswith(adt_prefix):
                out.add(f[len(adt_prefix):])
            for v in x.values():
                visit(v)
        elif isinstance(x, list):
            for v in x:
                visit(v)
    for bb in body["mir"]["blocks"]:
        if not bb["cleanup"]:
            visit(bb["st"])
            visit(bb["term"])
    return out


def check_rprim(ctx, prog):
    """Each NFA builder method writes, and each accessor reads, the one field of `nfa::State` that its
    name says; builders index the state table with their `state` argument and store their `next`
    argument."""
    lex = prog.crate(LEX)
    n = 0
    for table, what in ((NFA_WRITERS, "writes"), (NFA_READERS, "reads")):
        for meth, field in sorted(table.items()):
            b = lex.body("nfa::NFA::" + meth)
            if b is None and (what == "reads" or meth == "add_range_transition"):
                # an accessor that was folded into its only user, or the single-range builder that was
                # dropped because classes are added whole (add_range_transitions): nothing to cross-check
                continue
            if not ctx.ob("R-PRIM", "NFA::%s found" % meth, b is not None, key="R-PRIM:%s:anchor" % meth):
                continue
            touched = state_fields_touched(b, "nfa::State::State.")
            # closures of the method (e.g. merge functions) do not touch State fields
            ctx.ob("R-PRIM", "NFA::%s %s only State.%s" % (meth, what, field), touched == {field},
                   key="R-PRIM:%s:field" % meth, where=b["span"], detail=sorted(touched))
            n += 1
            if what == "writes":
                roles = {1: "self", 2: "state"}
                argc = b["mir"]["argc"]
                roles[argc] = "next" if meth != "make_state_accepting" else "right_ctx"
                sym = Sym(b, roles, crate=lex)
                # the index into `states` is `state.0`
                idx_ok = False
                for bb in b["mir"]["blocks"]:
                    if bb["cleanup"]:
                        continue
                    for st in bb["st"]:
                        if "lhs" in st and st["rv"]["k"] == "use":
                            t = sym.operand(st["rv"]["o"])
                            if t == ("path", ("param", "state"), (("f", 0),)):
                                idx_ok = True
                    t = bb["term"]
                    if t["k"] == "call":
                        for a in t["args"]:
                            if contains(sym.operand(a), lambda x: x == ("path", ("param", "state"), (("f", 0),))):
                                idx_ok = True
                ctx.ob("R-PRIM", "NFA::%s indexes the state table with its `state` argument" % meth, idx_ok,
                       key="R-PRIM:%s:index" % meth, where=b["span"])
                if meth != "make_state_accepting":
                    stored = False
                    for bb in b["mir"]["blocks"]:
                        if bb["cleanup"]:
                            continue
                        t = bb["term"]
                        if t["k"] == "call":
                            c = norm_path(t.get("resp") or t["f"].get("path")) or ""
                            if c.endswith("HashSet::insert") and sym.operand(t["args"][1]) == ("param", "next"):
                                stored = True
                    ctx.ob("R-PRIM", "NFA::%s stores its `next` argument as the target" % meth, stored,
                           key="R-PRIM:%s:next" % meth, where=b["span"])
    # the empty-transition closure reads empty transitions only, wherever that read lives
    cl = lex.body("nfa::NFA::compute_state_closure")
    if ctx.ob("R-PRIM", "NFA::compute_state_closure found", cl is not None, key="R-PRIM:closure:anchor"):
        touched = state_fields_touched(cl, "nfa::State::State.")
        ctx.ob("R-PRIM", "NFA::compute_state_closure follows only State.empty_transitions",
               touched <= {"empty_transitions"}, key="R-PRIM:closure:field", where=cl["span"], detail=sorted(touched))
    ctx.floor("NFA builder and accessor methods checked for field agreement", n, 11)


# --------------------------------------------------------------------------- subset construction pairing
def _calls(sym):
    out = []
    for bi, bb in enumerate(sym.blocks):
        if bb["cleanup"]:
            continue
        t = bb["term"]
        if t["k"] == "call":
            c = norm_path(t.get("resp") or t["f"].get("path")) or "?"
            out.append((bi, c, tuple(sym.operand(a) for a in t["args"])))
    return out


def _is_call(t, suffix):
    return isinstance(t, tuple) and len(t) == 4 and t[0] == "call" and t[1].endswith(suffix)


def closure_of(term):
    """X if term is collect(into_iter(compute_state_closure(nfa, X))) (any iterator plumbing between
    the closure and the collected set is accepted), else None."""
    found = []

    def walk(t):
        if _is_call(t, "NFA::compute_state_closure"):
            found.append(t)
            return
        if isinstance(t, tuple) and len(t) == 4 and t[0] == "call":
            for a in t[3]:
                walk(a)
    walk(term)
    if len(found) == 1 and found[0][3][0] == ("param", "nfa"):
        return found[0][3][1]
    return None


LOOKUPS = ("HashMap::get", "HashMap::entry", "HashMap::get_mut", "Index>::index", "BTreeMap::get", "BTreeMap::entry")


def strip_clone(t):
    while _is_call(t, "Clone>::clone") or _is_call(t, "::clone"):
        t = t[3][0]
    return t


def lookup_or_register(calls, tgt, dfa):
    """(state map term, key set term) if every alternative of `tgt` is either read out of one map under
    one key, or a new state of `dfa` that is stored into that map under that key; else None."""
    alts = list(tgt[1]) if tgt[0] == "phi" else [tgt]
    maps, keys = set(), set()
    for alt in alts:
        found = []
        contains(alt, lambda x: found.append(x) if any(_is_call(x, sfx) for sfx in LOOKUPS) else False)
        if found:
            for f in found:
                maps.add(f[3][0])
                keys.add(strip_clone(f[3][1]))
            continue
        if (_is_call(alt, "DFA::new_state") and alt[3][0] == dfa) or alt[0] == "path":
            reg = False
            for bi, c, a in calls:
                if c.endswith("HashMap::insert") and len(a) == 3 and a[2] == alt:
                    maps.add(a[0])
                    keys.add(strip_clone(a[1]))
                    reg = True
                elif c.endswith("VacantEntry::insert") and a[1] == alt:
                    ents = []
                    contains(a[0], lambda x: ents.append(x) if _is_call(x, "HashMap::entry") else False)
                    for e in ents:
                        maps.add(e[3][0])
                        keys.add(strip_clone(e[3][1]))
                        reg = True
            if reg:
                continue
        return None
    if len(maps) == 1 and len(keys) == 1:
        return next(iter(maps)), next(iter(keys))
    return None


def own_value_from(term, X, field):
    """True if one alternative of `term` IS field `field` of the item X belongs to (a start taken from
    the end field or vice versa)."""
    alts = list(term[1]) if term[0] == "phi" else [term]
    want = ("path", X[1], X[2][:-1] + (("f", field),))
    return any(a == want for a in alts)


def check_rsubset(ctx, prog):
    """nfa_to_dfa pairing rule, evaluated once per specialisation of the body (one, unless the body
    iterates a literal array of tagged tuples: then once per element, see Sym.specialised)."""
    lex = prog.crate(LEX)
    b = lex.body("nfa_to_dfa::nfa_to_dfa")
    if not ctx.ob("R-SUBSET", "nfa_to_dfa found", b is not None, key="R-SUBSET:anchor"):
        return
    sym = Sym(b, {1: "nfa"}, crate=lex)
    sps = sym.specialised()
    seen_kinds = {}
    total_sites = set()
    for sp in sps:
        _rsubset_on(ctx, lex, b, sp, sp.deep_calls(), len(sps) > 1, seen_kinds, total_sites)
    for kind in ("char", "any", "end-of-input", "range"):
        ctx.ob("R-SUBSET", "%s transitions are added at one place" % kind, len(seen_kinds.get(kind, ())) == 1,
               key="R-SUBSET:%s:sites" % kind, where=b["span"], detail=sorted(map(str, seen_kinds.get(kind, ()))))
    ctx.floor("places in nfa_to_dfa where DFA transitions are added", len(total_sites), 4)


FILTERING = _re.compile(r"Iterator>?::(filter|filter_map|take_while|skip_while|skip|take|step_by|map_while|"
                        r"flat_map|flatten|zip)$")


def registration_blocks(calls, tgt, dfa):
    """where the new-state alternatives of a transition target are stored into the state map"""
    out = []
    for alt in (tgt[1] if tgt[0] == "phi" else [tgt]):
        if _is_call(alt, "DFA::new_state") and alt[3][0] == dfa:
            for bi, c, a in calls:
                if (c.endswith("HashMap::insert") and len(a) == 3 and a[2] == alt) or \
                        (c.endswith("VacantEntry::insert") and len(a) == 2 and a[1] == alt):
                    out.append(bi)
    return out


def adaptors_after(pipeline, clo_name):
    """names of the iterator adaptors applied after the one that runs closure clo_name; None if that
    closure is not one of the pipeline's"""
    t = pipeline
    outside = []
    for _ in range(16):
        if not (isinstance(t, tuple) and len(t) == 4 and t[0] == "call" and t[3]):
            return None
        name, args = t[1], t[3]
        if len(args) == 2 and isinstance(args[1], tuple) and args[1][:1] == ("agg",) and args[1][1] == clo_name:
            return outside
        outside.append(name)
        t = args[0]
    return None


def sym_frames(sym):
    if not hasattr(sym, "_frames"):
        fr = {None: _Frame(sym)}
        for clo, ch in sym.closure_children():
            if clo[1] not in fr:
                fr[clo[1]] = _Frame(ch)
        sym._frames = fr
    return sym._frames


def locate_in(frames, bi):
    if isinstance(bi, int):
        return None, bi
    if isinstance(bi, tuple) and len(bi) == 3 and bi[0] == "clo" and isinstance(bi[2], int) and bi[1] in frames:
        return bi[1], bi[2]
    return "?", None


def check_emitted(ctx, sym, calls, kind, tgt, dfa, emit_bi, pipeline, where):
    """A DFA state that is created and registered for a transition target must become the target of a
    transition that is really added: a state registered for a piece that is then dropped is reachable
    from nowhere, and update_backtracks' final assertion (every state visited) makes the expansion
    panic."""
    frames = sym_frames(sym)
    fe, be = locate_in(frames, emit_bi)
    for rbi in registration_blocks(calls, tgt, dfa):
        fr, br = locate_in(frames, rbi)
        ok = None
        det = None
        if br is None or be is None:
            continue
        if fr == fe:
            F = frames[fr]
            extra = sorted(s_ for s_ in set(F.cd.get(be, ())) - set(F.cd.get(br, ())) if not F.constant_branch(s_))
            ok = not extra
            det = {"the transition is added only if": [show(F.branch_op(s_))[:160] for s_ in extra][:4]}
        elif fe is None and pipeline is not None and fr is not None:
            after = adaptors_after(pipeline, fr)
            if after is not None:
                bad = [n for n in after if FILTERING.search(n)]
                ok = not bad
                det = {"adaptors applied after the closure that registers the state": bad}
        if ok is None:
            ctx.notes.append("R-SUBSET: %s: where the state is registered and where the transition is added are in "
                             "different closures; 'registered implies added' not decided" % kind)
            continue
        ctx.ob("R-SUBSET", "%s: whenever a new state is registered for the target set, the transition to it is added "
               "(no condition between the two drops the transition)" % kind, ok, key="R-SUBSET:%s:emitted" % kind,
               where=where, detail=det)


def _rsubset_on(ctx, lex, b, sym, calls, multi, seen_kinds, total_sites):
    where = b["span"]
    pops = [x for x in calls if x[1] == "std::vec::Vec::pop"]
    if not ctx.ob("R-SUBSET", "one work list is popped", len(pops) == 1, key="R-SUBSET:pop", where=where):
        return
    W = pops[0][2][0]
    popped = None
    # the popped set: `(pop(W) as Some).0`
    acc = [x for x in calls if x[1].endswith("DFA::make_state_accepting")]
    if not ctx.ob("R-SUBSET", "make_state_accepting is called once", len(acc) == 1, key="R-SUBSET:acc", where=where):
        return
    dfa, cur = acc[0][2][0], acc[0][2][1]

    def from_pop(t):
        return contains(t, lambda x: _is_call(x, "Vec::pop") and x[3][0] == W)
    pushes_W_raw = [x[2][1] for x in calls if x[1] == "std::vec::Vec::push" and x[2][0] == W]
    pushes_W = [strip_clone(x) for x in pushes_W_raw]
    # current DFA state: looked up in the state map under the popped set, or created and registered
    alts = list(cur[1]) if cur[0] == "phi" else [cur]
    looked = [a for a in alts if contains(a, lambda x: _is_call(x, "HashMap::get") and from_pop(x[3][1]))]
    created = [a for a in alts if _is_call(a, "DFA::new_state")]
    carried = cur[0] == "path" and from_pop(cur) and not looked
    if carried:
        # the work item carries the DFA state next to its set of NFA states: every queued item must pair
        # a set with the state registered for that set
        ok_pairs = bool(pushes_W_raw)
        for pv in pushes_W_raw:
            ops = pv[2] if pv[0] == "agg" else ()
            pair_ok = False
            for st_op in ops:
                lr = lookup_or_register(calls, st_op, dfa)
                if lr is not None and any(strip_clone(o) == lr[1] for o in ops if o is not st_op):
                    pair_ok = True
            ok_pairs = ok_pairs and pair_ok
        ctx.ob("R-SUBSET", "the state being filled in travels with its set: every queued item pairs a set of NFA "
               "states with the DFA state registered for that set", ok_pairs, key="R-SUBSET:current",
               where=where, detail=[show(x)[:200] for x in pushes_W_raw])
    else:
        ctx.ob("R-SUBSET", "the state being filled in is the one the state map holds for the popped set, or a "
               "new state", len(looked) >= 1 and len(looked) + len(created) == len(alts),
               key="R-SUBSET:current", where=where, detail=show(cur))
    state_map = None
    for a in looked:
        def grab(x):
            nonlocal state_map
            if _is_call(x, "HashMap::get") and from_pop(x[3][1]):
                state_map = x[3][0]
            return False
        contains(a, grab)
    for a in created:
        reg = [x for x in calls if x[1].endswith("HashMap::insert") and x[2][0] == state_map
               and from_pop(x[2][1]) and x[2][2] == a]
        # not an obligation: an unregistered state only duplicates work (and today the `None` arm is
        # unreachable: every queued set is registered before it is pushed)
        ctx.count("R-SUBSET: states created for a popped set and registered under it", len(reg))
    acc_val = acc[0][2][2]
    ctx.ob("R-SUBSET", "the accepting value comes from NFA::get_accepting_state of a member of the popped set",
           contains(acc_val, lambda x: _is_call(x, "NFA::get_accepting_state") and x[3][0] == ("param", "nfa")
                    and from_pop(x[3][1])), key="R-SUBSET:accepting", where=where, detail=show(acc_val))

    def check_target(kind, tgt, detail_where):
        lr = lookup_or_register(calls, tgt, dfa)
        ok_map = lr is not None and (state_map is None or lr[0] == state_map)
        ctx.ob("R-SUBSET", "%s: the target is the DFA state registered (or created and registered) for a set of "
               "NFA states in the state map" % kind, ok_map, key="R-SUBSET:%s:target" % kind, where=where,
               detail=show(tgt)[:400])
        if not ok_map:
            return None
        C = lr[1]
        X = closure_of(C)
        ctx.ob("R-SUBSET", "%s: that set is the empty-transition closure (compute_state_closure) of the collected "
               "targets" % kind, X is not None, key="R-SUBSET:%s:closure" % kind, where=where, detail=show(C))
        ctx.ob("R-SUBSET", "%s: the same closure is pushed on the work list, so the target state gets its own "
               "transitions and accepting value" % kind,
               any(contains(p_, lambda y: y == C) for p_ in pushes_W), key="R-SUBSET:%s:queued" % kind,
               where=where, detail={"closure": show(C), "pushed": [show(p)[:120] for p in pushes_W]})
        return X

    n_sites = 0
    for meth, kind in (("add_char_transition", "char"), ("set_any_transition", "any"),
                       ("set_end_of_input_transition", "end-of-input")):
        sites = [x for x in calls if x[1].endswith("DFA::" + meth)]
        for bi, c, a in sites:
            n_sites += 1
            seen_kinds.setdefault(kind, set()).add(bi)
            total_sites.add((kind, bi))
            ctx.ob("R-SUBSET", "%s: the transition leaves the state being filled in" % kind,
                   a[0] == dfa and a[1] == cur, key="R-SUBSET:%s:source" % kind, where=where, detail=show(a[1]))
            X = check_target(kind, a[-1], bi)
            check_emitted(ctx, sym, calls, kind, a[-1], dfa, bi, None, where)
            if kind == "char" and X is not None:
                label = a[2]
                ok = label[0] == "path" and X[0] == "path" and label[1] == X[1] and \
                    label[2][:-1] == X[2][:-1] and label[2][-1] == ("f", 0) and X[2][-1] == ("f", 1)
                ctx.ob("R-SUBSET", "char: the label and the target set are the key and the value of the same "
                       "entry of the collected character transitions", ok, key="R-SUBSET:char:item", where=where,
                       detail=[show(label), show(X)])
    # ranges: Range { start, end, value } pushed to a vector handed to set_range_transitions
    srt = [x for x in calls if x[1].endswith("DFA::set_range_transitions")]
    for bi, c, a in srt:
        n_sites += 1
        seen_kinds.setdefault("range", set()).add(bi)
        total_sites.add(("range", bi))
        ctx.ob("R-SUBSET", "range: the transitions are set on the state being filled in", a[0] == dfa and a[1] == cur,
               key="R-SUBSET:range:source", where=where)
        m = a[2]
        ok_ctor = _is_call(m, "RangeMap::from_non_overlapping_sorted_ranges")
        ctx.ob("R-SUBSET", "range: the map is built from the vector of ranges collected in the loop", ok_ctor,
               key="R-SUBSET:range:ctor", where=where, detail=show(m)[:200])
        if not ok_ctor:
            continue
        V = m[3][0]
        items = [x[2][1] for x in calls if x[1] == "std::vec::Vec::push" and x[2][0] == V] + \
            [sym.elem(x[2][1]) for x in calls if x[1].endswith("Extend>::extend") and x[2][0] == V]
        emit_at = [(x[0], None) for x in calls if x[1] == "std::vec::Vec::push" and x[2][0] == V] + \
            [(x[0], x[2][1]) for x in calls if x[1].endswith("Extend>::extend") and x[2][0] == V]
        ctx.ob("R-SUBSET", "range: ranges are pushed to that vector at one place", len(items) == 1,
               key="R-SUBSET:range:push", where=where)
        for it in items:
            ok_agg = it[0] == "agg" and it[1].startswith("adt:range_map::Range") and len(it[2]) == 3
            ctx.ob("R-SUBSET", "range: a Range { start, end, value } is pushed", ok_agg, key="R-SUBSET:range:agg",
                   where=where)
            if not ok_agg:
                continue
            start, end, value = it[2]
            X = check_target("range", value, bi)
            if len(emit_at) == 1:
                check_emitted(ctx, sym, calls, "range", value, dfa, emit_at[0][0], emit_at[0][1], where)
            ok = False
            det = None
            if X is not None and X[0] == "path" and X[2] and X[2][-1] == ("f", 2):
                item = ("path", X[1], X[2][:-1]) if len(X[2]) > 1 else X[1]

                def fields_of_item(t):
                    out = set()

                    def walk(y):
                        if isinstance(y, tuple):
                            if len(y) == 3 and y[0] == "path" and y[1] == X[1] and y[2][:len(X[2]) - 1] == X[2][:-1] \
                                    and len(y[2]) >= len(X[2]):
                                out.add(y[2][len(X[2]) - 1])
                                return
                            for z in y:
                                walk(z)
                        elif isinstance(y, frozenset):
                            for z in y:
                                walk(z)
                    walk(t)
                    return out
                fs, fe = fields_of_item(start), fields_of_item(end)
                # each end may be clamped using constants and itself; whether the piece is kept may
                # depend on both, but the value stored comes from its own field
                ok = ("f", 0) in fs and ("f", 1) in fe and ("f", 2) not in fs | fe and \
                    not own_value_from(start, X, 1) and not own_value_from(end, X, 0)
                det = {"start uses fields": sorted(fs), "end uses fields": sorted(fe)}
            ctx.ob("R-SUBSET", "range: start and end (possibly clamped to scalar values) are the start and the end, "
                   "in that order, of the same collected range whose targets are used", ok,
                   key="R-SUBSET:range:item", where=where, detail=det)


# --------------------------------------------------------------------------- subset construction provenance
def subterms(t, pred, out):
    if pred(t):
        out.append(t)
    if isinstance(t, (tuple, frozenset)):
        for x in t:
            subterms(x, pred, out)
    return out


def is_default(t):
    """a fresh (default-constructed) collection, or a field of a fresh default-constructed struct of
    collections"""
    if isinstance(t, tuple) and len(t) == 3 and t[0] == "path" and all(p[0] == "f" for p in t[2]):
        t = t[1]
    return isinstance(t, tuple) and len(t) == 4 and t[0] == "call" and (
        t[1].endswith("Default>::default") or t[1].endswith("::new") or t[1].endswith("::default"))


def unguard(t):
    while isinstance(t, tuple) and t and t[0] == "guarded":
        t = t[2]
    return t


def item_of(t):
    """(collection term, path) if t is an element (or a field of an element) of a collection that is
    iterated, by a loop or through iterator adaptors."""
    t = unguard(t)
    path = ()
    if t[0] == "path":
        t, path = unguard(t[1]), t[2]
    if t[0] != "elem":
        return None
    return t[1], path


NAV = _re.compile(r"(Iterator>::next|IntoIterator>::into_iter|HashMap::entry|Entry::or_default|::iter|"
                 r"RangeMap::len|RangeMap::into_iter|RangeMap::iter|Vec::with_capacity|::len)$")


def check_rprov(ctx, prog):
    lex = prog.crate(LEX)
    b = lex.body("nfa_to_dfa::nfa_to_dfa")
    if not ctx.ob("R-PROV", "nfa_to_dfa found", b is not None, key="R-PROV:anchor"):
        return
    sym = Sym(b, {1: "nfa"}, crate=lex)
    blocks = sym.blocks
    loops, dom, preds = cfg.natural_loops(blocks)
    locals_ = b["mir"]["locals"]
    where = b["span"]
    calls = []
    sp_calls = []
    for sp in sym.specialised():
        cl = sp.deep_calls_mut()
        sp_calls.append(cl)
        for x in cl:
            if x not in calls:
                calls.append(x)

    def member(t):
        """a member of the popped set"""
        it = item_of(t) if t[0] == "path" else None
        if it is None:
            # `next(..) as Some .0` without further path
            if t[0] == "path" and _is_call(t[1], "Iterator>::next"):
                it = item_of(("path", t[1], t[2]))
        return contains(t, lambda x: _is_call(x, "Vec::pop"))

    # collectors from the transition sites
    coll = {}
    keys = {}
    for meth, kind in (("set_any_transition", "any"), ("set_end_of_input_transition", "eoi"),
                       ("add_char_transition", "char")):
        found = [(cl, x) for cl in sp_calls for x in cl if x[1].endswith("DFA::" + meth)]
        if len({x[0] for cl, x in found}) != 1:
            ctx.ob("R-PROV", "one %s site" % kind, False, key="R-PROV:%s:site" % kind, where=where)
            return
        # (when the body was specialised per element of a literal array, a site that every element
        # reaches must yield the same target set in all of them)
        Xs = set()
        for cl, x in found:
            lr = lookup_or_register([(y[0], y[1], y[2]) for y in cl], x[2][-1], x[2][0])
            Xs.add(closure_of(lr[1]) if lr is not None else None)
            if lr is not None:
                keys[kind] = lr[1]
        X = next(iter(Xs)) if len(Xs) == 1 else None
        if X is None:
            ctx.ob("R-PROV", "%s target is a closure" % kind, False, key="R-PROV:%s:closure" % kind, where=where)
            return
        coll[kind] = X
    ok = is_default(coll["any"]) and is_default(coll["eoi"]) and coll["any"] != coll["eoi"]
    ctx.ob("R-PROV", "the `_` and end-of-input target sets are two separate fresh sets", ok, key="R-PROV:sets",
           where=where, detail=[show(coll["any"]), show(coll["eoi"])])
    D_any, D_eoi = coll["any"], coll["eoi"]
    ci = item_of(coll["char"])
    ok = ci is not None and is_default(ci[0]) and ci[1] == (("f", 1),)
    ctx.ob("R-PROV", "character targets are the values of a fresh map iterated entry by entry", ok,
           key="R-PROV:charmap", where=where, detail=show(coll["char"]))
    if not ok:
        return
    D_char = ci[0]
    CHAR_ITEM = ("path", coll["char"][1], coll["char"][2][:-1]) if len(coll["char"][2]) > 1 else coll["char"][1]
    # range map: from the Range aggregate pushed
    D_range = None
    X_range = None
    cl0 = sp_calls[0]
    range_items = [a[1] for bi, c, a, m in cl0 if c == "std::vec::Vec::push"] + \
        [sym.elem(a[1]) for bi, c, a, m in cl0 if c.endswith("Extend>::extend") and len(a) == 2]
    for it_ in range_items:
        for alt_ in (it_[1] if it_[0] == "phi" else [it_]):
            if alt_[0] == "agg" and alt_[1].startswith("adt:range_map::Range"):
                v = alt_[2][2]
                dfa_t = [x for x in cl0 if x[1].endswith("DFA::set_range_transitions")]
                lr = lookup_or_register([(x[0], x[1], x[2]) for x in cl0], v, dfa_t[0][2][0]) if dfa_t else None
                X_range = closure_of(lr[1]) if lr is not None else None
                if lr is not None:
                    keys["range"] = lr[1]
    ri = item_of(X_range) if X_range is not None else None
    ok = ri is not None and is_default(ri[0]) and ri[1] == (("f", 2),)
    ctx.ob("R-PROV", "range targets are the values of a fresh range map iterated piece by piece", ok,
           key="R-PROV:rangemap", where=where, detail=show(X_range) if X_range else None)
    if not ok:
        return
    D_range = ri[0]
    names = {D_any: "`_` targets", D_eoi: "end-of-input targets", D_char: "character targets",
             D_range: "range targets"}

    def nfa_item(t, accessor):
        """path below an item of NFA::<accessor>(nfa, member of popped set)"""
        it = item_of(t)
        if it is None:
            return None
        c, path = it
        if _is_call(c, "NFA::" + accessor) and c[3][0] == ("param", "nfa") and \
                contains(c[3][1], lambda x: _is_call(x, "Vec::pop")):
            return c, path
        return None

    ACCESSORS = ("char_transitions", "range_transitions", "any_transitions", "end_of_input_transitions",
                 "get_accepting_state", "initial_state")

    def sources(args):
        """(NFA accessors, collectors) the inserted values derive from"""
        acc = set()
        cols = set()
        for t in args:
            for x in subterms(t, lambda y: isinstance(y, tuple) and len(y) == 4 and y[0] == "call"
                              and y[1].startswith("nfa::NFA::") and y[1].rsplit("::", 1)[-1] in ACCESSORS, []):
                acc.add(x[1].rsplit("::", 1)[-1])
            for d in names:
                if contains(t, lambda y, d=d: y == d):
                    cols.add(d)
            if contains(t, lambda y: _is_call(y, "Vec::pop")) and not acc:
                acc.add("<the popped set itself>")
        return acc, cols

    def within(t, d):
        if t == d:
            return True
        if _is_call(t, "Entry::or_default") and _is_call(t[3][0], "HashMap::entry") and t[3][0][3][0] == d:
            return True
        it = item_of(t) if t[0] == "path" else None
        return it is not None and it[0] == d

    n_mut = 0
    for bi, c, a, a0mut in calls:
        if not a or not a0mut:
            continue
        roots = [d for d in names if within(a[0], d)]
        if not roots or NAV.search(c):
            continue
        root = roots[0]
        what = names[root]
        key = "R-PROV:%s" % what.split()[0].strip("`")
        vals = [x for x in a[1:] if not (x[0] == "agg" and x[1].startswith("closure:"))]
        acc, cols = sources(vals)
        cols.discard(root) if a[0] != root else None
        stage2 = a[0] != root and not _is_call(a[0], "Entry::or_default")
        ok = False
        rule = ""
        if root == D_eoi:
            rule = "only NFA::end_of_input_transitions of members of the popped set"
            ok = acc == {"end_of_input_transitions"} and not cols
        elif root == D_any:
            rule = "only NFA::any_transitions of members of the popped set"
            ok = acc == {"any_transitions"} and not cols
        elif root == D_char and not stage2:
            rule = "only the targets of NFA character transitions, filed under that transition's character"
            ent = a[0][3][0] if _is_call(a[0], "Entry::or_default") else None
            K = ent[3][1] if ent is not None else None
            kk = nfa_item(K, "char_transitions") if K is not None else None
            srcs = subterms(a[1], lambda x: isinstance(x, tuple) and x[:1] == ("path",) and
                            nfa_item(x, "char_transitions") is not None, [])
            same = kk is not None and kk[1] == (("f", 0),) and any(
                nfa_item(s_, "char_transitions")[0] == kk[0] and nfa_item(s_, "char_transitions")[1] == (("f", 1),)
                for s_ in srcs)
            ok = acc == {"char_transitions"} and not cols and same
        elif root == D_char:
            rule = "only targets of a collected range that contains the character, or `_` targets"
            ok = not acc and cols and cols <= {D_range, D_any}
            if ok and D_range in cols:
                rs = subterms(a[1], lambda x: isinstance(x, tuple) and x[:1] == ("path",) and
                              item_of(x) is not None and item_of(x)[0] == D_range and item_of(x)[1] == (("f", 2),), [])
                guarded = False
                CH = project(CHAR_ITEM, (("f", 0),))
                for r_ in rs:
                    R = ("path", r_[1], r_[2][:-1]) if len(r_[2]) > 1 else r_[1]
                    guards = [gb for gb, gc, ga, gm in calls if gc.endswith("Range::contains") and unguard(ga[0]) == unguard(R)
                              and ga[1] == CH and isinstance(gb, int)]
                    guarded = guarded or (isinstance(bi, int) and
                                          any(true_edge_dominates(blocks, dom, g, bi) for g in guards))
                    # or the range comes out of `.filter(|r| r.contains(char))`
                    if R[0] == "guarded" and _is_call(R[1], "Range::contains") and unguard(R[1][3][0]) == unguard(R) \
                            and R[1][3][1] == CH:
                        guarded = True
                if not guarded:
                    ok = False
                    rule += " (the range must be tested with contains(char) first)"
        elif root == D_range and not stage2:
            rule = "only NFA range transitions, inserted as (start, end, targets) with a merge that keeps both sides"
            ok = acc == {"range_transitions"} and not cols
            if ok and c.endswith("RangeMap::insert"):
                its = [nfa_item(x, "range_transitions") for x in a[1:3]]
                v = a[3][3][0] if _is_call(a[3], "clone") else a[3]
                iv = nfa_item(v, "range_transitions")
                ok = all(x is not None for x in its) and iv is not None and its[0][0] == its[1][0] == iv[0] and \
                    (its[0][1], its[1][1], iv[1]) == ((("f", 0),), (("f", 1),), (("f", 2),))
                cb = None
                clo_t = a[4] if len(a) > 4 else None
                if clo_t is not None and clo_t[0] == "agg" and clo_t[1].startswith("closure:"):
                    cb = lex.body(norm_path(clo_t[1][len("closure:"):]))
                okm = False
                if cb is not None:
                    cs = Sym(cb, {1: "env", 2: "a", 3: "b"})
                    ext = [x for x in _calls(cs) if x[1].endswith("Extend>::extend")]
                    okm = len(ext) == 1 and ext[0][2][0] == ("param", "a") and \
                        contains(ext[0][2][1], lambda x: x == ("param", "b"))
                ctx.ob("R-PROV", "range targets: where two NFA ranges overlap the merged piece gets the targets "
                       "of both (the merge function extends the first set with the second)", okm,
                       key=key + ":merge", where=where)
        elif root == D_range:
            rule = "only `_` targets in addition to a range's own targets"
            ok = not acc and cols == {D_any}
        n_mut += 1
        ctx.ob("R-PROV", "%s receive %s" % (what, rule), ok,
               key=key + ":source:%s:%s" % ("piece" if stage2 else "collect", c.rsplit("::", 1)[-1]),
               where=blocks[bi].get("span") if isinstance(bi, int) else where,
               detail={"call": c, "target": show(a[0])[:200], "NFA accessors feeding the inserted value": sorted(acc),
                       "collected sets feeding it": sorted(names[x] for x in cols)})
    ctx.floor("places where the subset construction adds states to a target set", n_mut, 4)
    _rprov_complete(ctx, sym, blocks, dom, calls, where, coll, X_range, D_any, D_eoi, D_char, D_range, CHAR_ITEM,
                    within, keys)


ITER_TRANSPARENT = _re.compile(r"(IntoIterator>?::into_iter|Iterator>?::(copied|cloned|rev|peekable|by_ref|fuse)|"
                               r"::iter|::iter_mut|::into_iter|Deref>::deref|DerefMut>::deref_mut|::as_slice|::drain|"
                               r"Clone>::clone|::clone|Iterator>?::collect)$")


def strip_guards(t):
    if isinstance(t, tuple):
        if t and t[0] == "guarded":
            return strip_guards(t[2])
        return tuple(strip_guards(x) if isinstance(x, (tuple, frozenset)) else x for x in t)
    if isinstance(t, frozenset):
        return frozenset(strip_guards(x) for x in t)
    return t


def guards_in(t, out):
    if isinstance(t, tuple):
        if t and t[0] == "guarded":
            out.append(t[1])
            guards_in(t[2], out)
            return out
        for x in t:
            guards_in(x, out)
    elif isinstance(t, frozenset):
        for x in t:
            guards_in(x, out)
    return out


def must_all(it, src):
    """Iterating `it` yields every element of the collection `src` (a term without guards): `it` is src
    behind adaptors that drop nothing, a chain with such a part, or a choice all of whose alternatives are."""
    if (src(strip_guards(it)) if callable(src) else strip_guards(it) == src):
        return True
    if isinstance(it, tuple) and it and it[0] == "phi":
        return all(must_all(a, src) for a in it[1])
    if isinstance(it, tuple) and len(it) == 4 and it[0] == "call" and it[3]:
        name, args = it[1], it[3]
        if _re.search(r"Iterator>?::chain$", name) and len(args) == 2:
            return must_all(args[0], src) or must_all(args[1], src)
        if ITER_TRANSPARENT.search(name) and not name.startswith(("nfa::NFA::", "dfa::DFA::")):
            return must_all(args[0], src)
    return False


class _Frame(object):
    """One body (nfa_to_dfa itself, or a closure created in it and evaluated with its captures bound)
    with its control dependences."""

    def __init__(self, sym):
        self.sym = sym
        self.blocks = sym.blocks
        self.cd = cfg.control_deps(self.blocks)
        _l, self.dom, _p = cfg.natural_loops(self.blocks)

    def branch_op(self, s):
        t = self.blocks[s]["term"]
        return self.sym.operand(t["d"]) if t["k"] == "switch" else None

    def iter_elem(self, s):
        """the element the loop (or `if let Some(x) = it.find(..)`) branching at s runs over"""
        op = self.branch_op(s)
        if op is None or op[0] != "discr":
            return None
        o = op[1]
        if isinstance(o, tuple) and len(o) == 4 and o[0] == "call" and _re.search(r"Iterator>?::next$", o[1]):
            return self.sym.elem(o[3][0])
        return self.sym.payload(o)

    def constant_branch(self, s):
        """a switch on the variant of a value that this evaluator knows (an element of a literal array it
        follows): the other edges are not taken"""
        op = self.branch_op(s)
        return op is not None and op[0] == "discr" and isinstance(op[1], tuple) and op[1][:1] == ("agg",) and \
            op[1][1].startswith("adt:")

    def bool_op(self, s):
        op = self.branch_op(s)
        if op is not None and op[0] == "un" and op[1] == "Not":
            op = op[2]
        return op

    def on_true_side(self, s, ev):
        """block ev runs only when the boolean tested at s is true"""
        sw = self.blocks[s]["term"]
        arms = sw["arms"]
        if len(arms) != 1 or arms[0][0] != 0:
            return False
        op = self.branch_op(s)
        t_tgt, f_tgt = sw["else"], arms[0][1]
        if op is not None and op[0] == "un" and op[1] == "Not":
            t_tgt, f_tgt = f_tgt, t_tgt
        return t_tgt != f_tgt and t_tgt in self.dom.get(ev, ()) and f_tgt not in self.dom.get(ev, ())


def _rprov_complete(ctx, sym, blocks, dom, calls, where, coll, X_range, D_any, D_eoi, D_char, D_range, CHAR_ITEM,
                    within, keys):
    """The other direction of R-PROV: nothing is left out. Each target set must receive *all* of what it
    stands for on every way to the place where its closure is taken - an adding call that runs only under
    some other condition, or that adds one of two alternatives, loses transitions for the inputs that
    take the other way (the lexer then rejects, or prefers a shorter match, where a rule matches)."""
    frames = {None: _Frame(sym)}
    for clo, ch in sym.closure_children():
        if clo[1] not in frames:
            frames[clo[1]] = _Frame(ch)
    CH = project(CHAR_ITEM, (("f", 0),))

    def locate(bi):
        """(frame id, block) of a call found by deep_calls"""
        if isinstance(bi, int):
            return None, bi
        if isinstance(bi, tuple) and len(bi) == 3 and bi[0] == "clo" and isinstance(bi[2], int) and bi[1] in frames:
            return bi[1], bi[2]
        return "?", None

    def covers(c, a, src):
        if len(a) != 2:
            return None
        if c.endswith("Extend>::extend") and must_all(a[1], src):
            return "all"
        if _re.search(r"(HashSet::insert|BTreeSet::insert|Vec::push)$", c) and not callable(src) and \
                strip_guards(strip_clone(a[1])) == ("elem", src):
            return "each"
        return None

    def lookup_site(K):
        for bi, c, a, m in calls:
            if any(c.endswith(sfx) for sfx in LOOKUPS) and len(a) >= 2 and strip_clone(a[1]) == K:
                fid, blk = locate(bi)
                if blk is not None:
                    return fid, blk
        return None

    def closure_of_any(t):
        return _is_call(t, "NFA::compute_state_closure") and len(t[3]) == 2 and t[3][0] == ("param", "nfa") and \
            t[3][1] == D_any

    def closure_site(X):
        for bi, c, a, m in calls:
            if c.endswith("NFA::compute_state_closure") and len(a) == 2 and a[1] == X:
                fid, blk = locate(bi)
                if blk is not None:
                    return fid, blk
        return None

    def find_cover(events, src, fid, allowed, extra_own, site, guard_ok=None):
        """events: adding calls into the right target; one of them must add all of src with no condition
        beyond `allowed`, its own iteration over src and what extra_own accepts. Everything is looked at
        inside the frame fid (the body where the closure of the set is taken)."""
        F = frames[fid]
        tried = []
        for bi, c, a in events:
            efid, blk = locate(bi)
            if efid != fid or blk is None:
                tried.append({"call": c, "why not": "made in another closure than the one that takes the closure "
                              "of the set"})
                continue
            mode = covers(c, a, src)
            if mode is None:
                tried.append({"call": c, "adds": show(a[1])[:160] if len(a) > 1 else None,
                              "why not": "does not add every element of %s" % show(src)[:120]})
                continue
            if guard_ok is not None and not all(guard_ok(g) for g in guards_in(a[1], [])):
                tried.append({"call": c, "why not": "the source is filtered by another condition"})
                continue
            deps = F.cd.get(blk, ())
            own = [s_ for s_ in deps if mode == "each" and strip_guards(F.iter_elem(s_) or ()) == ("elem", src)]
            rest = [s_ for s_ in deps if s_ not in allowed and s_ not in own and not extra_own(F, s_, blk)]
            if rest:
                tried.append({"call": c, "why not": "runs only under another condition",
                              "conditions": [show(F.branch_op(s_))[:160] for s_ in sorted(rest)][:4]})
                continue
            if site is not None:
                loops_ = own + [s_ for s_ in deps if s_ not in allowed and extra_own(F, s_, blk)]
                before = blk in F.dom.get(site, ()) or any(s_ in F.dom.get(site, ()) for s_ in loops_)
                if not before:
                    tried.append({"call": c, "why not": "not done before the closure of the set is taken"})
                    continue
            return True, tried
        return False, tried

    def decide(key, desc, events, src, site, extra_own, guard_ok=None, alternatives=()):
        tried = []
        ok = False
        for ev_, src_, site_ in ((events, src, site),) + tuple(alternatives):
            if site_ is None:
                continue
            fid, blk = site_
            ok, tr = find_cover(ev_, src_, fid, frames[fid].cd.get(blk, set()), extra_own, blk, guard_ok)
            tried += tr
            if ok:
                break
        ctx.ob("R-PROV", desc, ok, key=key, where=where, detail=None if ok else {"adding calls looked at": tried[:6]})
        return ok

    def after_closure(K):
        """the `_` targets may also join after the closures are taken: closure(A + B) = closure(A) + closure(B),
        so adding all of compute_state_closure(nfa, `_` targets) to the closure of the set, before the state
        for it is looked up, is the same"""
        if K is None:
            return ()
        return (([(bi, c, a) for bi, c, a in adders if a[0] == K], closure_of_any, lookup_site(K)),)

    adders = [(bi, c, a) for bi, c, a, m in calls if m and a and Sym.ADDERS.search(c)]
    # ---- stage 2: the per-character and per-range target sets
    site_c = closure_site(coll["char"])
    site_r = closure_site(X_range)
    no_own = lambda F, s_, blk: False
    if site_c is not None:
        ev = [(bi, c, a) for bi, c, a in adders if a[0] == coll["char"]]
        decide("R-PROV:complete:char:any", "every character's target set receives all `_` targets, whatever else "
               "it receives", ev, D_any, site_c, no_own, alternatives=after_closure(keys.get("char")))
        # the piece of the collected range map that contains the character
        pieces = set()
        for bi, c, a in ev:
            for x in subterms(a[1] if len(a) > 1 else (), lambda y: isinstance(y, tuple) and y[:1] == ("path",) and
                              item_of(y) is not None and item_of(y)[0] == D_range and item_of(y)[1] == (("f", 2),), []):
                pieces.add(strip_guards(("path", x[1], x[2][:-1]) if len(x[2]) > 1 else x[1]))
        P = next(iter(pieces)) if len(pieces) == 1 else None

        def is_contains(g):
            return _is_call(g, "Range::contains") and strip_guards(g[3][0]) == P and g[3][1] == CH

        def own_piece(F, s_, blk):
            e = F.iter_elem(s_)
            if e is not None and strip_guards(e) == P and all(is_contains(g) for g in guards_in(e, [])):
                return True
            op = F.bool_op(s_)
            return op is not None and is_contains(op) and F.on_true_side(s_, blk)
        desc = "every character's target set receives all targets of the collected range that contains the character"
        if P is not None:
            decide("R-PROV:complete:char:range", desc, ev, project(P, (("f", 2),)), site_c, own_piece,
                   guard_ok=is_contains)
        else:
            ctx.ob("R-PROV", desc, False, key="R-PROV:complete:char:range", where=where,
                   detail="no adding call takes its value from a piece of the collected range map")
    if site_r is not None:
        ev = [(bi, c, a) for bi, c, a in adders if a[0] == X_range]
        decide("R-PROV:complete:range:any", "every range's target set receives all `_` targets", ev, D_any, site_r,
               no_own, alternatives=after_closure(keys.get("range")))
    ctx.ob("R-PROV", "the places where the closures of the character and range target sets are taken are found",
           site_c is not None and site_r is not None, key="R-PROV:complete:sites", where=where)

    # ---- stage 1: collecting the NFA transitions of the members of the popped set
    F0 = frames[None]

    def is_member(t):
        t = strip_guards(t)
        return isinstance(t, tuple) and len(t) == 2 and t[0] == "elem" and contains(t[1], lambda x: _is_call(x, "Vec::pop"))
    member_loops = [s_ for s_ in range(len(blocks)) if not blocks[s_]["cleanup"] and blocks[s_]["term"]["k"] == "switch"
                    and F0.iter_elem(s_) is not None and is_member(F0.iter_elem(s_))]
    ctx.ob("R-PROV", "the loop over the members of the popped set is found", bool(member_loops),
           key="R-PROV:complete:members", where=where)
    if not member_loops:
        return

    def accessor_calls(t, accessor):
        return [strip_guards(x) for x in subterms(t, lambda y: _is_call(y, "NFA::" + accessor) and len(y[3]) == 2 and
                                                 y[3][0] == ("param", "nfa") and is_member(y[3][1]), [])]

    def decide_collect(key, desc, events, srcs_of, extra_own_of):
        tried = []
        for ml in member_loops:
            allowed = set(F0.cd.get(ml, set())) | {ml}
            for ev1 in events:
                for src in srcs_of(ev1):
                    ok, tr = find_cover([ev1], src, None, allowed, extra_own_of(src), None)
                    if ok:
                        ctx.ob("R-PROV", desc, True, key=key, where=where)
                        return True
                    tried += tr
        ctx.ob("R-PROV", desc, False, key=key, where=where,
               detail={"adding calls looked at": tried[:6] or [{"call": c, "adds": [show(x)[:120] for x in a[1:]]}
                                                               for bi, c, a in events][:6]})
        return False

    for D, accessor, nm in ((D_any, "any_transitions", "any"), (D_eoi, "end_of_input_transitions", "eoi")):
        ev = [(bi, c, a) for bi, c, a in adders if a[0] == D]
        decide_collect("R-PROV:complete:collect:" + nm,
                       "for every member of the popped set all of NFA::%s is added to the collected set" % accessor,
                       ev, lambda e, accessor=accessor: accessor_calls(e[2][1:], accessor), lambda src: no_own)
    # characters: filed under the transition's own character
    ev = [(bi, c, a) for bi, c, a in adders if a[0] != D_char and within(a[0], D_char) and a[0] != coll["char"]]

    def char_srcs(e):
        return [("path", ("elem", acc), (("f", 1),)) for acc in accessor_calls(e[2], "char_transitions")]

    def char_own(src):
        E = src[1]
        return lambda F, s_, blk: strip_guards(F.iter_elem(s_) or ()) == E
    decide_collect("R-PROV:complete:collect:char", "for every member of the popped set all targets of every entry of "
                   "NFA::char_transitions are added to the collected set of that character", ev, char_srcs, char_own)
    # ranges: RangeMap::insert(start, end, targets) per NFA range
    ok = False
    evr = [(bi, c, a) for bi, c, a in adders if a[0] == D_range]
    for ml in member_loops:
        allowed = set(F0.cd.get(ml, set())) | {ml}
        for bi, c, a in evr:
            if not isinstance(bi, int):
                continue
            if c.endswith("RangeMap::insert") and len(a) >= 4:
                for acc in accessor_calls(a[1:4], "range_transitions"):
                    E = ("elem", acc)
                    want = tuple(("path", E, (("f", i),)) for i in range(3))
                    got = (strip_guards(a[1]), strip_guards(a[2]), strip_guards(strip_clone(a[3])))
                    rest = [s_ for s_ in F0.cd.get(bi, ()) if s_ not in allowed and
                            strip_guards(F0.iter_elem(s_) or ()) != E]
                    if got == want and not rest and not guards_in(a[1:4], []):
                        ok = True
            elif c.endswith("RangeMap::insert_ranges") and len(a) >= 2:
                for acc in accessor_calls(a[1:2], "range_transitions"):
                    rest = [s_ for s_ in F0.cd.get(bi, ()) if s_ not in allowed]
                    if must_all(a[1], acc) and not rest:
                        ok = True
    ctx.ob("R-PROV", "for every member of the popped set every NFA range transition is inserted into the collected "
           "range map", ok, key="R-PROV:complete:collect:range", where=where,
           detail={"adding calls looked at": [{"call": c, "adds": [show(x)[:100] for x in a[1:4]]} for bi, c, a in evr][:4]})


# --------------------------------------------------------------------------- index shifts (R-OFFSET on terms)
def closure_terms(sym):
    """Terms of the closures created in sym's body."""
    out = []
    for bb in sym.blocks:
        if bb["cleanup"]:
            continue
        for st in bb["st"]:
            rv = st.get("rv")
            if rv and rv["k"] == "agg" and (rv["kind"] or {}).get("agg") == "closure" and "lhs" in st \
                    and not st["lhs"]["p"]:
                t = sym.local(st["lhs"]["l"])
                for alt in (t[1] if t[0] == "phi" else [t]):
                    if alt[0] == "agg" and alt[1].startswith("closure:"):
                        out.append(alt)
    return out


def child_sym(sym, clo):
    cb = sym.crate.body(norm_path(clo[1][len("closure:"):])) if sym.crate is not None else None
    if cb is None or sym.depth >= 4:
        return None
    return Sym(cb, {1: clo}, crate=sym.crate, depth=sym.depth + 1)


def collect_bins(sym, op, seen=None, deep=True):
    """(a, b, where) for every `a op b` computed in sym's body or (deep) in a closure created in it
    (closure bodies are evaluated with their captured variables bound to the creating function's terms)."""
    seen = set() if seen is None else seen
    out = []
    for bi, bb in enumerate(sym.blocks):
        if bb["cleanup"]:
            continue
        for st in bb["st"]:
            rv = st.get("rv")
            if rv and rv["k"] == "bin" and rv["op"].replace("WithOverflow", "") == op:
                out.append((sym.operand(rv["a"]), sym.operand(rv["b"]), bb.get("span")))
        # the same operation spelled as a method of the integer type (`a.checked_add(b).expect(..)`,
        # `a.wrapping_sub(b)`, ..)
        t = bb["term"]
        if t["k"] == "call" and len(t["args"]) == 2:
            c = norm_path(t.get("resp") or t["f"].get("path")) or ""
            m = _re.search(r"::(?:checked|wrapping|saturating|overflowing|strict|unchecked)_(add|sub)$", c)
            if m and {"add": "Add", "sub": "Sub"}[m.group(1)] == op and "<impl " in c:
                out.append((sym.operand(t["args"][0]), sym.operand(t["args"][1]), bb.get("span")))
    if not deep:
        return out
    for clo in closure_terms(sym):
        if clo in seen:
            continue
        seen.add(clo)
        ch = child_sym(sym, clo)
        if ch is not None:
            out += collect_bins(ch, op, seen)
    return out


def deep_has(sym, term, pred, depth=0):
    """pred holds for a subterm of `term`, of what was added to a collection it mentions, or of a
    binary operation inside a closure it mentions."""
    hit = []

    def walk(t, d):
        if hit or d > 6:
            return
        if isinstance(t, tuple):
            if pred(t):
                hit.append(t)
                return
            if len(t) == 4 and t[0] == "call":
                for v in sym.contents(t):
                    walk(v, d + 1)
            if len(t) == 3 and t[0] == "agg" and isinstance(t[1], str) and t[1].startswith("closure:"):
                ch = child_sym(sym, t)
                if ch is not None:
                    for a, b, _w in collect_bins(ch, "Add"):
                        walk(("bin", "Add", a, b), d + 1)
            for x in t:
                walk(x, d + 1)
        elif isinstance(t, frozenset):
            for x in t:
                walk(x, d + 1)
    walk(term, depth)
    return bool(hit)


def check_roffset(ctx, prog):
    """DFA::add_dfa: every index addition adds the number of states before the append; each of the five
    index-carrying fields of an appended state goes through such an addition; the function returns
    that number as the appended automaton's entry."""
    lex = prog.crate(LEX)
    b = lex.body("dfa::DFA::add_dfa")
    if not ctx.ob("R-OFFSET", "DFA::add_dfa found", b is not None, key="R-OFFSET:anchor"):
        return
    sym = Sym(b, {1: "self", 2: "other"}, crate=lex)
    where = b["span"]
    lens = [x for x in sym.all_calls() if x[1] == "std::vec::Vec::len" and
            contains(x[2][0], lambda y: y == ("param", "self"))]
    ret = sym.local(0)
    N = None
    if ret[0] == "agg" and ret[1].startswith("adt:dfa::StateIdx") and len(ret[2]) == 1:
        N = ret[2][0]
    ok = N is not None and _is_call(N, "Vec::len") and contains(N[3][0], lambda y: y == ("param", "self")) and \
        contains(N[3][0], lambda y: isinstance(y, tuple) and y[:1] == ("path",) or y == ("param", "self"))
    ctx.ob("R-OFFSET", "add_dfa returns StateIdx(number of states before the append) as the appended rule set's "
           "entry", ok, key="R-OFFSET:return", where=where, detail=show(ret))
    if not ok:
        return
    adds = collect_bins(sym, "Add")
    for a_, b_, w in adds:
        ctx.ob("R-OFFSET", "add_dfa: an index is shifted by the number of states before the append",
               a_ == N or b_ == N, key="R-OFFSET:add", where=w, detail=[show(a_), show(b_)])
    ctx.floor("index additions in DFA::add_dfa (including its closures)", len(adds), 1)
    # the State value that is pushed
    pushed = None
    for bb in sym.blocks:
        if bb["cleanup"]:
            continue
        for st in bb["st"]:
            rv = st.get("rv")
            if rv and rv["k"] == "agg" and (rv["kind"] or {}).get("adt") == "dfa::State" and "lhs" in st:
                pushed = (rv["kind"].get("fields") or [], [sym.operand(o) for o in rv["ops"]])
    if not ctx.ob("R-OFFSET", "add_dfa builds the appended State values", pushed is not None,
                  key="R-OFFSET:state", where=where):
        return
    names, ops = pushed

    def shifted(t):
        return deep_has(sym, t, lambda y: isinstance(y, tuple) and len(y) == 4 and y[0] == "bin" and y[1] == "Add"
                        and (y[2] == N or y[3] == N))
    for f in ("char_transitions", "range_transitions", "any_transition", "end_of_input_transition", "predecessors"):
        if f not in names:
            ctx.ob("R-OFFSET", "appended State has field %s" % f, False, key="R-OFFSET:field:" + f, where=where)
            continue
        t = ops[names.index(f)]
        ctx.ob("R-OFFSET", "add_dfa: the state indices in `%s` of an appended state are shifted by the number of "
               "states before the append" % f, shifted(t), key="R-OFFSET:field:" + f, where=where,
               detail=show(t)[:300])


def check_rshift(ctx, prog):
    """dfa::simplify::simplify: which states are removed, and that every index that survives is lowered
    by an amount found by searching the list of removed states."""
    from .rules_src import cfg as _cfg
    lex = prog.crate(LEX)
    b = lex.body("dfa::simplify::simplify")
    if not ctx.ob("R-SHIFT", "simplify found", b is not None, key="R-SHIFT:anchor"):
        return
    sym = Sym(b, {1: "dfa", 2: "dfa_state_indices"}, crate=lex)
    blocks = sym.blocks
    where = b["span"]
    loops, dom, preds = _cfg.natural_loops(blocks)
    calls = []
    for bi, bb in enumerate(blocks):
        if bb["cleanup"]:
            continue
        t = bb["term"]
        if t["k"] == "call":
            calls.append((bi, norm_path(t.get("resp") or t["f"].get("path")) or "?",
                          tuple(sym.operand(a) for a in t["args"])))
    hn = [bi for bi, c, a in calls if c == "dfa::State::has_no_transitions"]
    guarded = [(bi, a) for bi, c, a in calls if c == "std::vec::Vec::push"
               and any(true_edge_dominates(blocks, dom, h, bi) for h in hn)]
    lists = {a[0] for bi, a in guarded}
    if not ctx.ob("R-SHIFT", "the states that have no transitions (the removed states) are collected in a list",
                  len(lists) >= 1, key="R-SHIFT:list", where=where, detail=[show(x) for x in lists]):
        return
    # (several parallel lists may be filled under the same test: indices in one, accepting values in
    # another; a table that is also filled in the other branch is not a list of removed states)
    def all_guarded(lst):
        return all(any(true_edge_dominates(blocks, dom, h, bi) for h in hn)
                   for bi, c, a in calls if c == "std::vec::Vec::push" and a[0] == lst)
    ES_all = {x for x in lists if all_guarded(x)}
    if not ctx.ob("R-SHIFT", "a list receives exactly the states without transitions", bool(ES_all),
                  key="R-SHIFT:list", where=where, detail=[show(x) for x in lists]):
        return
    ok1 = True
    for bi, c, a in calls:
        if c == "std::vec::Vec::push" and a[0] in ES_all:
            ok1 = ok1 and any(true_edge_dominates(blocks, dom, h, bi) for h in hn)
            init_ok = False
            for bj, bb in enumerate(blocks):
                t = bb["term"]
                if t["k"] == "switch" and len(t["arms"]) == 1 and t["arms"][0][0] == 0:
                    d = t["d"].get("move") or t["d"].get("copy")
                    if d is None:
                        continue
                    cond = sym.local(d["l"])
                    reads_initial = contains(cond, lambda y: isinstance(y, tuple) and y[:1] == ("path",) and
                                             any(p == ("f", 0) for p in y[2][-1:])) and "initial" in repr(
                        [st for st in bb["st"] if "lhs" in st and st["lhs"]["l"] == d["l"]])
                    if reads_initial and t["arms"][0][1] in dom.get(bi, ()):
                        init_ok = True
            ok1 = ok1 and init_ok
    ctx.ob("R-SHIFT", "a state is removed only if it has no transitions and is not a rule set's initial state",
           ok1, key="R-SHIFT:removal", where=where,
           detail="initial states are kept even when empty (empty rule sets): counting them as removed shifts "
                  "every later entry index")

    def searched(t):
        """t is computed from the removed-state list(s): by a call on one of them (a search, its length at
        the time a state was classified), possibly through a table that was filled with such values"""
        return deep_has(sym, t, lambda y: isinstance(y, tuple) and len(y) == 4 and y[0] == "call" and y[3]
                        and contains(y[3][0], lambda z: z in ES_all))
    subs_body = collect_bins(sym, "Sub", deep=False)
    subs_all = collect_bins(sym, "Sub")
    # index subtractions only (pointer-alignment checks of debug builds subtract constants)
    subs_all = [x for x in subs_all if not (x[0][0] == "const" and x[1][0] == "const")]
    subs_body = [x for x in subs_body if not (x[0][0] == "const" and x[1][0] == "const")]
    for a_, b_, w in subs_all:
        ctx.ob("R-SHIFT", "a state index is lowered by an amount found by searching the list of removed states",
               searched(b_), key="R-SHIFT:amount", where=w, detail=[show(a_)[:200], show(b_)[:300]])
    entry = [x for x in subs_body if contains(x[0], lambda y: y == ("param", "dfa_state_indices"))]
    if not entry:
        # the caller may do it, with what `simplify` hands back (e.g. a `Renumbering` value)
        lx = lex.body("lexer")
        if lx is not None:
            lsym = Sym(lx, {1: "input"}, crate=lex)
            for a_, b_, w in collect_bins(lsym, "Sub"):
                if contains(b_, lambda y: _is_call(y, "simplify::simplify")) and \
                        contains(a_, lambda y: isinstance(y, tuple) and len(y) == 2 and y[0] == "elem"):
                    entry.append((a_, b_, w))
    ctx.ob("R-SHIFT", "rule-set entry indices (the values of the entry map) are renumbered that way",
           bool(entry), key="R-SHIFT:entries", where=where,
           detail=[[show(a_)[:160], show(b_)[:200]] for a_, b_, w in subs_body])
    ctx.ob("R-SHIFT", "transition targets are renumbered that way too (inside the closures that rebuild the states)",
           len(subs_all) > len(subs_body), key="R-SHIFT:transitions", where=where)
    ctx.floor("index subtractions in simplify and its closures", len(subs_all), 2)
