"""The analysed program: fact files of several crates, indexed for lookup by normalised path."""
import os

from . import facts
from .segx import norm_path


class Crate(object):
    def __init__(self, data, path=None):
        self.data = data
        self.file = path
        self.name = data["crate"]
        self.bodies = data["bodies"]
        self.by_norm = {}
        for b in self.bodies:
            self.by_norm.setdefault(norm_path(b["path"]), []).append(b)
        self.statics = {s["path"]: s for s in data.get("statics", [])}
        self.adts = {a["path"]: a for a in data.get("adts", [])}
        self._inlined = {}
        if self.name == "lexgen_util":
            from . import lts as _lts
            _lts.Expansion.UTIL["crate"] = self
            from . import segx as _segx
            for pth, a in self.adts.items():
                last = pth.rsplit("::", 1)[-1]
                if last not in _segx.RUNTIME_PUBLIC and len(a.get("variants", [])) == 1 and \
                        a["variants"][0]["name"] == last and not a.get("from_expansion"):
                    _segx.PRIVATE_RUNTIME_ADTS.add(pth)
                    _segx.PRIVATE_RUNTIME_ADTS.add("lexgen_util::" + pth)

    def raw_body(self, npath):
        bs = self.by_norm.get(npath)
        return bs[0] if bs else None

    def body(self, npath, inline=None):
        """Body by normalised path. For the macro crate (`lexgen`) helper calls are inlined by default
        (lexlint/inline.py), so that rules see through extracted helpers and small combinators."""
        b = self.raw_body(npath)
        if b is None:
            return None
        if inline is None:
            inline = self.name in ("lexgen", "lexgen_util")
        if not inline:
            return b
        if npath not in self._inlined:
            from . import inline as _inl
            self._inlined[npath] = _inl.inline_body(self, b)[0]
        return self._inlined[npath]

    def ibodies(self):
        """All bodies of the crate, helper calls inlined (macro crate only)."""
        for b in self.bodies:
            yield self.body(norm_path(b["path"])) if self.by_norm[norm_path(b["path"])][0] is b else b

    def adt(self, path):
        return self.adts.get(path)


class Program(object):
    """Crates loaded from one fact directory. Callee names seen from another crate are prefixed
    with the defining crate's name; `find_body` resolves both spellings."""

    def __init__(self, fdir):
        self.fdir = fdir
        self.crates = {}

    def crate(self, name, test=False):
        key = (name, test)
        if key not in self.crates:
            fs = facts.crate_files(self.fdir, name, test)
            if not fs:
                raise facts.BuildFailure("no fact file for crate %s (test=%s)" % (name, test), "")
            self.crates[key] = Crate(facts.load(fs[0]), fs[0])
        return self.crates[key]

    def add(self, crate, key=None):
        self.crates[key or (crate.name, False)] = crate

    def find_body(self, npath, home=None):
        """Body for normalised callee path `npath` as printed inside crate `home`."""
        if home is not None:
            b = home.body(npath)
            if b is not None:
                return b, home
        if npath and "::" in npath:
            head, rest = npath.split("::", 1)
            # `<T as Trait>::m` spellings are not resolved across crates
            if (head, False) not in self.crates and head in ("lexgen_util",):
                try:
                    self.crate(head)
                except facts.BuildFailure:
                    pass
            for (name, test), c in list(self.crates.items()):
                if name == head and not test:
                    b = c.body(rest)
                    if b is not None:
                        return b, c
        return None, None
