"""The analysed program: fact files of several crates, indexed for lookup by normalised path."""
import os

from . import facts
from .segx import norm_path


class Crate(object):
    def __init__(self, data, path=None):
        self.data = data
        self.file = path
        self.name = data["crate"]
        self.bodies = data["bodies"]
        self.by_norm = {}
        for b in self.bodies:
            self.by_norm.setdefault(norm_path(b["path"]), []).append(b)
        self.statics = {s["path"]: s for s in data.get("statics", [])}
        self.adts = {a["path"]: a for a in data.get("adts", [])}

    def body(self, npath):
        bs = self.by_norm.get(npath)
        return bs[0] if bs else None

    def adt(self, path):
        return self.adts.get(path)


class Program(object):
    """Crates loaded from one fact directory. Callee names seen from another crate are prefixed
    with the defining crate's name; `find_body` resolves both spellings."""

    def __init__(self, fdir):
        self.fdir = fdir
        self.crates = {}

    def crate(self, name, test=False):
        key = (name, test)
        if key not in self.crates:
            fs = facts.crate_files(self.fdir, name, test)
            if not fs:
                raise facts.BuildFailure("no fact file for crate %s (test=%s)" % (name, test), "")
            self.crates[key] = Crate(facts.load(fs[0]), fs[0])
        return self.crates[key]

    def add(self, crate, key=None):
        self.crates[key or (crate.name, False)] = crate

    def find_body(self, npath, home=None):
        """Body for normalised callee path `npath` as printed inside crate `home`."""
        if home is not None:
            b = home.body(npath)
            if b is not None:
                return b, home
        if npath and "::" in npath:
            head, rest = npath.split("::", 1)
            # `<T as Trait>::m` spellings are not resolved across crates
            if (head, False) not in self.crates and head in ("lexgen_util",):
                try:
                    self.crate(head)
                except facts.BuildFailure:
                    pass
            for (name, test), c in list(self.crates.items()):
                if name == head and not test:
                    b = c.body(rest)
                    if b is not None:
                        return b, c
        return None, None
