"""Per-expansion analysis results, computed once per (source tree, checker code) state.

Every property check replays the obligations of the rules it claims from these results. The cache
key contains the hash of /repo's sources (facts.tree_key) and of the checker's own code, so a result
is never reused for a different tree or a different checker; `VERIF_NO_CACHE=1` disables it.
"""
import hashlib
import re
import multiprocessing
import os
import pickle
import time

from . import facts, lts, rules_gen, rules_who
from .program import Program, Crate
from .report import Ctx

REPO_TEST_CRATES = ("tests", "bugs", "right_ctx", "lua_5_1")
# (crate, is test build, source file with the lexer! invocations)
REPO_LEXER_CRATES = (
    ("tests", True, "crates/lexgen/tests/tests.rs"),
    ("bugs", True, "crates/lexgen/tests/bugs.rs"),
    ("right_ctx", True, "crates/lexgen/tests/right_ctx.rs"),
    ("lua_5_1", True, "crates/lexgen/tests/lua_5_1.rs"),
    ("lexgen_lalrpop_example", False, "crates/lexgen_lalrpop_example/src/lib.rs"),
)


def code_hash():
    h = hashlib.sha256()
    d = os.path.dirname(os.path.abspath(__file__))
    for fn in sorted(os.listdir(d)):
        if fn.endswith(".py"):
            with open(os.path.join(d, fn), "rb") as f:
                h.update(fn.encode())
                h.update(f.read())
    return h.hexdigest()[:16]


class ExpResult(object):
    """What the generated-code rules found for one expansion."""

    def __init__(self):
        self.id = None
        self.span = None
        self.obligations = []     # (rule, desc, ok, key, where, detail)
        self.counts = {}
        self.notes = []
        self.stats = {}
        self.extra = {}
        self.wall = 0.0


class Recorder(Ctx):
    """A Ctx that only records, for later replay into the real per-property Ctx."""

    def __init__(self):
        Ctx.__init__(self, "rec")
        self.rec = []

    def ob(self, rule, desc, ok, key=None, where=None, detail=None):
        self.rec.append((rule, desc, bool(ok), key or (rule + ":" + desc), where,
                         detail if not ok else None))
        return ok


GEN_RULES = list(rules_gen.ALL_RULES)


def repo_definitions(repo):
    """Definitions of the repository's own lexers parsed from the test sources, keyed by
    (file relative to the repo, line of the invocation)."""
    from . import defparse
    out = {}
    for name, _, rel in REPO_LEXER_CRATES:
        path = os.path.join(repo, rel)
        if not os.path.exists(path):
            continue
        for line, col, d in defparse.find_lexers(path):
            out[(rel, line)] = d
    return out


def analyse_one(prog, exp, expected_kinds=None, keep_lts=False, definition=None, bsets=None):
    t0 = time.time()
    rec = Recorder()
    res = ExpResult()
    res.id = exp.id
    res.span = exp.span
    try:
        L, g = rules_gen.analyse_expansion(rec, prog, exp, GEN_RULES)
        rules_who.check_who_generated(rec, prog, exp)
        rules_who.check_panic_generated(rec, prog, exp)
        rules_who.check_ctor_delegation(rec, prog, exp)
        rules_who.check_handles(rec, prog, exp)
        shapes = rules_who.check_sugar(rec, prog, exp, expected_kinds)
        kinds = {}
        for s in L.segs:
            kinds[s.kind] = kinds.get(s.kind, 0) + 1
        res.stats = {"states": L.n_states, "reads": len(L.read_segs), "segments": len(L.segs),
                     "kinds": kinds, "steps": L.steps, "blocks": len(exp.next_body["mir"]["blocks"]),
                     "actions": len(exp.actions()), "contexts": len(exp.ctx_fns()),
                     "tables": len(exp.statics), "wrapper_shapes": shapes,
                     "switch_map": getattr(g, "switch_map", {}),
                     "may_saved_reads": sum(1 for v in getattr(g, "may_saved", {}).values() if v)}
        if definition is not None:
            from . import wit as _wit
            if isinstance(definition, Exception):
                # the definition could not be read back from the test source (e.g. the `lexer!`
                # invocation is produced by a `macro_rules!` wrapper): that is a limit of this tool's
                # reader, not a defect of lexgen - the generated-code rules still apply to the
                # expansion, translation validation is skipped for it and the number of repository
                # lexers that were validated has a floor (cli.replay_gen)
                rec.notes.append("TV not applied to %s: its definition could not be read from the test "
                                 "source (%s)" % (exp.id, str(definition)[:120]))
                res.stats["tv_skipped"] = True
            else:
                kinds = {i: r.kind for i, r in enumerate(definition.rules_in_order())}
                for k, kind in sorted(kinds.items()):
                    rec.ob("R-SUGAR", "%s: rule %d written as %s compiles to the %s wrapper" % (
                        exp.id, k, kind, kind), shapes.get(k) == kind,
                        key="R-SUGAR:%s:kind:%d" % (exp.id, k), where=exp.span,
                        detail={"found": shapes.get(k)})
                st = _wit.tv_obligations(rec, exp.id, exp.id, definition, exp, L, g, prog,
                                         bsets or {}, exp.span)
                res.stats["tv_pairs"] = st.get("pairs", 0) + st.get("ctx_pairs", 0)
                res.stats["tv_comparisons"] = st.get("comparisons", 0)
        if keep_lts:
            res.extra["lts"] = L
            res.extra["gen"] = g
    except Exception as e:      # fail closed: an analysis crash is a reported failure
        import traceback
        rec.ob("ENGINE", "%s: analysis of the expansion completed" % exp.id, False,
               key="ENGINE:%s" % exp.id, where=exp.span,
               detail=traceback.format_exc()[-1500:])
    res.obligations = rec.rec
    res.counts = rec.counts
    res.notes = rec.notes
    res.wall = time.time() - t0
    return res


_G = {}


def _worker(i):
    prog, exps = _G["prog"], _G["exps"]
    exp = exps[i]
    d = None
    m = re.match(r"^(.*?):(\d+):(\d+): ", exp.span or "")
    if m and _G.get("defs") is not None:
        d = _G["defs"].get((m.group(1), int(m.group(2))))
        if d is None:
            d = ValueError("no lexer! invocation found at %s" % exp.span)
    return analyse_one(prog, exp, definition=d, bsets=_G.get("bsets"))


def analyse_crate(prog, crate, jobs=None, with_defs=False):
    try:
        prog.crate("lexgen_util")        # the runtime's bodies must be at hand before expansions are read
    except Exception:
        pass
    try:
        from . import rules_runtime as _rr
        _rr.use_saved_layout(prog)        # where the saved match keeps its four components
    except Exception:
        pass
    exps = lts.find_expansions(crate)
    if not exps:
        return []
    # biggest first so the pool stays busy
    order = sorted(range(len(exps)), key=lambda i: -len(exps[i].next_body["mir"]["blocks"]))
    _G["prog"], _G["exps"] = prog, exps
    prog.crate("lexgen_util")
    if with_defs:
        from . import wit as _wit
        _G["defs"] = repo_definitions(facts.repo_path())
        _G["bsets"] = _wit.builtin_sets(prog)
    else:
        _G["defs"] = None
    jobs = jobs or min(16, os.cpu_count() or 4)
    if len(exps) == 1 or jobs == 1:
        out = {i: _worker(i) for i in order}
    else:
        ctxm = multiprocessing.get_context("fork")
        with ctxm.Pool(jobs) as pool:
            rs = pool.map(_worker, order, chunksize=1)
        out = dict(zip(order, rs))
    return [out[i] for i in range(len(exps))]


def cache_dir(fdir):
    return os.path.join(os.path.dirname(fdir), "cache-" + code_hash())


def repo_gen_results(fdir=None, log=None):
    """Results for every lexer! expansion in the repository's own test crates."""
    fdir = fdir or facts.repo_facts()
    cdir = cache_dir(fdir)
    path = os.path.join(cdir, "repo-gen.pkl")
    if os.path.exists(path) and not os.environ.get("VERIF_NO_CACHE"):
        with open(path, "rb") as f:
            return pickle.load(f)
    with facts.Lock("analysis-%s.lock" % os.path.basename(os.path.dirname(fdir))):
        if os.path.exists(path) and not os.environ.get("VERIF_NO_CACHE"):
            with open(path, "rb") as f:
                return pickle.load(f)
        prog = Program(fdir)
        out = []
        for cn, is_test, _ in REPO_LEXER_CRATES:
            out.extend(analyse_crate(prog, prog.crate(cn, test=is_test), with_defs=True))
        os.makedirs(cdir, exist_ok=True)
        tmp = path + ".tmp%d" % os.getpid()
        with open(tmp, "wb") as f:
            pickle.dump(out, f)
        os.replace(tmp, path)
        return out


def replay(ctx, results, rules, prefix=""):
    """Copy the obligations of the named rules from analysis results into a property's Ctx."""
    n = 0
    for r in results:
        for rule, desc, ok, key, where, detail in r.obligations:
            if rule in rules or rule in ("ENGINE",):
                n += 1
                ctx.ob(rule, desc, ok, key=key, where=where, detail=detail)
        for k, v in r.counts.items():
            ctx.count(k, v)
    return n
