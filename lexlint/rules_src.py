"""Rules on the macro's own source (crate `lexgen`): scope all definitions, structural clause only.

R-WL     worklist loops make progress (termination of expansion; monotone backtrack flags)
R-EXH    functions treating DFA/NFA transition kinds treat all four
R-DET    no nondeterministic container or API
R-PARSE  recursive-descent levels, operators per level, left associativity, peek-set agreement
R-SCOPE  rule sets receive a clone of the bindings
R-CHK    rejection checks are present and their failure path diverges
R-FLOW   subset construction merges range/any targets into char/range targets
R-ORDER  accepting NFA states are visited in rule order
"""
import re

from . import cfg
from .models import StdModels, NONE, some
from .segx import Engine, Path, norm_path, project

LEX = "lexgen"


# ------------------------------------------------------------------------------------ R-WL
def local_of_mut_ref(blocks, bi, op):
    """If operand `op` (an argument) is a local assigned `&mut _W` (or a reborrow of it) in block
    bi, return W."""
    pl = op.get("move") or op.get("copy")
    if pl is None or pl["p"]:
        return None
    target = pl["l"]
    for _ in range(3):
        found = None
        for st in blocks[bi]["st"]:
            if "lhs" in st and st["lhs"]["l"] == target and not st["lhs"]["p"]:
                rv = st["rv"]
                if rv["k"] == "ref":
                    p = rv["p"]
                    if not p["p"]:
                        return p["l"]
                    if p["p"] == ["*"]:
                        found = p["l"]
        if found is None:
            break
        target = found
    # the borrow may have been taken in an earlier block (two-phase borrows: `w.extend(f(..))`)
    for _ in range(4):
        defs = []
        for bb in blocks:
            if bb["cleanup"]:
                continue
            for st in bb["st"]:
                if "lhs" in st and st["lhs"]["l"] == target and not st["lhs"]["p"]:
                    defs.append(st["rv"])
        if len(defs) != 1 or defs[0]["k"] != "ref":
            return None
        p = defs[0]["p"]
        if not p["p"]:
            return p["l"]
        if p["p"] != ["*"]:
            return None
        target = p["l"]
    return None


def worklist_loops(body, lex=None):
    """Loops that pop a Vec and push to / extend the same Vec. The Vec is identified by the def-use term
    of the receiver (a local, a field of a context struct, a capture of an inlined closure: all the
    same object)."""
    from .rules_thompson import Sym
    blocks = body["mir"]["blocks"]
    loops, dom, preds = cfg.natural_loops(blocks)
    if not loops:
        return []
    has_pop = any(name == "std::vec::Vec::pop" for _, name, _ in cfg.calls_in(blocks))
    if not has_pop:
        return []
    sym = Sym(body, {}, crate=lex)
    out = []
    for h, members in sorted(loops.items()):
        pops, pushes = [], []
        for bi, name, t in cfg.calls_in(blocks, members):
            if name == "std::vec::Vec::pop":
                pops.append((bi, sym.operand(t["args"][0])))
            elif name == "std::vec::Vec::push" or (name or "").endswith("std::iter::Extend>::extend"):
                # `work_list.extend(successors.map(..))` queues work just like a push per element
                pushes.append((bi, sym.operand(t["args"][0])))
        for bi, w in pops:
            # the pop must be in the header segment of this loop (not of an inner loop)
            inner = [h2 for h2, m2 in loops.items() if h2 != h and h2 in members and bi in m2]
            if inner:
                continue
            ps = [p for p, w2 in pushes if w2 == w]
            if ps:
                out.append({"head": h, "members": members, "pop": bi, "W": w, "pushes": ps,
                            "loops": loops, "dom": dom, "lex": lex})
    return out


def true_edge_dominates(blocks, dom, call_block, target_block):
    """The true successor of `switchInt(result of call in call_block)` dominates target_block."""
    t = blocks[call_block]["term"]
    nxt = t["t"]
    if nxt < 0:
        return False
    # follow gotos
    seen = 0
    while blocks[nxt]["term"]["k"] == "goto" and not blocks[nxt]["st"] and seen < 4:
        nxt = blocks[nxt]["term"]["t"]
        seen += 1
    sw = blocks[nxt]["term"]
    if sw["k"] != "switch":
        return False
    d = sw["d"].get("move") or sw["d"].get("copy")
    if d is None or d["p"] or d["l"] != t["dest"]["l"]:
        return False
    arms = sw["arms"]
    if len(arms) != 1 or arms[0][0] != 0:
        return False
    true_tgt = sw["else"]
    false_tgt = arms[0][1]
    if true_tgt == false_tgt:
        return False
    return true_tgt in dom.get(target_block, ()) and false_tgt not in dom.get(target_block, ())


def idiom_a(body, wl):
    """Every push is dominated by the true edge of a `HashSet::insert` inside the loop."""
    blocks = body["mir"]["blocks"]
    inserts = [bi for bi, name, t in cfg.calls_in(blocks, wl["members"])
               if name in ("std::collections::HashSet::insert", "std::collections::BTreeSet::insert")]
    if not inserts:
        return False, "no set insert in the loop"
    for p in wl["pushes"]:
        if not any(true_edge_dominates(blocks, wl["dom"], i, p) for i in inserts):
            return False, "push in bb%d is not guarded by `set.insert(..) == true`" % p
    return True, "every push is guarded by set.insert(..) == true (%d pushes)" % len(wl["pushes"])


def false_edge_dominates(blocks, dom, call_block, target_block):
    t = blocks[call_block]["term"]
    nxt = t["t"]
    if nxt < 0:
        return False
    sw = blocks[nxt]["term"]
    if sw["k"] != "switch":
        return False
    d = sw["d"].get("move") or sw["d"].get("copy")
    if d is None or d["p"] or d["l"] != t["dest"]["l"]:
        return False
    arms = sw["arms"]
    if len(arms) != 1 or arms[0][0] != 0:
        return False
    false_tgt = arms[0][1]
    return false_tgt in dom.get(target_block, ()) and sw["else"] not in dom.get(target_block, ())


def idiom_b(body, wl):
    """The body is skipped when `finished.contains(x)`; otherwise x is inserted into `finished`
    before anything is pushed; `finished` never shrinks."""
    blocks = body["mir"]["blocks"]
    calls = cfg.calls_in(blocks, wl["members"])
    contains = [(bi, t) for bi, name, t in calls if name == "std::collections::HashSet::contains"]
    inserts = [(bi, t) for bi, name, t in calls if name == "std::collections::HashSet::insert"]
    for cb, ct in contains:
        f = local_of_ref(blocks, cb, ct["args"][0])
        if f is None:
            continue
        for ib, it in inserts:
            f2 = local_of_mut_ref(blocks, ib, it["args"][0])
            if f2 != f:
                continue
            if not false_edge_dominates(blocks, wl["dom"], cb, ib):
                continue
            if not all(ib in wl["dom"].get(p, ()) for p in wl["pushes"]):
                continue
            # same key: contains(&k) / insert(k)
            k1 = key_local(blocks, cb, ct["args"][1], deref=True)
            k2 = key_local(blocks, ib, it["args"][1], deref=False)
            if k1 is None or k1 != k2:
                continue
            shrink = [name for _, name, t in cfg.calls_in(blocks)
                      if re.search(r"HashSet::(remove|clear|retain|drain|take)$", name or "")]
            if shrink:
                return False, "the finished set can shrink (%s)" % shrink[0]
            return True, "body runs only for keys not yet in the finished set _%d, which is " \
                         "extended first (contains in bb%d, insert in bb%d)" % (f, cb, ib)
    return False, "no `if finished.contains(k) { continue } finished.insert(k)` guard dominating all pushes"


def ref_chain_target(blocks, bi, local):
    """Follow `_a = &_x` / `_a = &(*_b)` assignments inside block bi: the local finally borrowed."""
    target = local
    for _ in range(4):
        nxt = None
        for st in blocks[bi]["st"]:
            if "lhs" in st and st["lhs"]["l"] == target and not st["lhs"]["p"] and st["rv"]["k"] == "ref":
                p = st["rv"]["p"]
                if not p["p"]:
                    return p["l"]
                if p["p"] == ["*"]:
                    nxt = p["l"]
        if nxt is None:
            return None
        target = nxt
    return None


def local_of_ref(blocks, bi, op):
    pl = op.get("move") or op.get("copy")
    if pl is None or pl["p"]:
        return None
    return ref_chain_target(blocks, bi, pl["l"])


def key_local(blocks, bi, op, deref):
    """Local holding the key passed (by reference if deref) to contains/insert."""
    pl = op.get("move") or op.get("copy")
    if pl is None or pl["p"]:
        return None
    if deref:
        return ref_chain_target(blocks, bi, pl["l"])
    for st in blocks[bi]["st"]:
        if "lhs" in st and st["lhs"]["l"] == pl["l"] and not st["lhs"]["p"]:
            rv = st["rv"]
            if rv["k"] == "use":
                q = rv["o"].get("copy") or rv["o"].get("move")
                if q is not None and not q["p"]:
                    return q["l"]
    return None


C_TABLE = {
    # (entry kind, old, new) -> (proceeds, stored)
    ("Vacant", None, 0): (True, 0),
    ("Vacant", None, 1): (True, 1),
    ("Occupied", 0, 0): (False, None),
    ("Occupied", 0, 1): (True, 1),
    ("Occupied", 1, 0): (False, None),
    ("Occupied", 1, 1): (False, None),
}


def idiom_c(body, wl):
    """Monotone map: a `Map<K, bool>` entry is created on the first visit, raised from false to true
    at most once, never lowered; the body proceeds only on creation or raise."""
    blocks = body["mir"]["blocks"]
    calls = cfg.calls_in(blocks, wl["members"])
    if not any(name in ("std::collections::HashMap::entry", "std::collections::HashMap::get")
               for _, name, _ in calls):
        return False, "no map entry / lookup in the loop", None
    heads = set(wl["loops"])
    rows = {}
    # shape of a work item: a (state, flag) tuple, or a struct with one bool field
    elem_ty = None
    m = re.match(r"^std::option::Option<(.+)>$", body["mir"]["locals"][blocks[wl["pop"]]["term"]["dest"]["l"]])
    if m:
        elem_ty = m.group(1)
    adt = wl.get("lex").adt(elem_ty) if (wl.get("lex") is not None and elem_ty and not elem_ty.startswith("(")) else None

    def popped_value(new):
        if adt is not None and len(adt["variants"]) == 1:
            v = adt["variants"][0]
            fields = tuple((f["name"], ("int", new, "bool") if f["ty"] == "bool" else ("sym", f["name"]))
                           for f in v["fields"])
            return ("adt", elem_ty, v["name"], 0, fields)
        return ("tuple", (("sym", "state"), ("int", new, "bool")))
    for (kind, old, new), (exp_proceed, exp_store) in sorted(C_TABLE.items(), key=repr):
        stores = []

        def models(eng, st, c, kind=kind, old=old, new=new, stores=stores):
            n = c.callee or ""
            if n == "std::vec::Vec::pop":
                return [(st, some(popped_value(new)))]
            if n == "std::collections::HashMap::entry":
                return [(st, ("mapentry", kind))]
            if n == "std::collections::HashMap::get":
                # `match map.get(&k) { Some(&old) if .. => continue, _ => {} } map.insert(k, new)`
                if kind == "Vacant":
                    return [(st, NONE)]
                st.set_cell(("sym", "old"), (), ("int", old if old is not None else 0, "bool"))
                return [(st, some(("ref", ("sym", "old"), ())))]
            if n == "std::collections::HashMap::insert" and len(c.args) == 3:
                stores.append(c.args[2])
                st.events.append(("store", c.args[2]))
                return [(st, NONE)]
            if n == "std::collections::hash_map::OccupiedEntry::get":
                st.set_cell(("sym", "old"), (), ("int", old if old is not None else 0, "bool"))
                return [(st, ("ref", ("sym", "old"), ()))]
            if n in ("std::collections::hash_map::OccupiedEntry::insert",
                     "std::collections::hash_map::VacantEntry::insert"):
                stores.append(c.args[1])
                st.events.append(("store", c.args[1]))
                return [(st, ("unit",))]
            if n == "std::vec::Vec::push" or n.endswith("std::iter::Extend>::extend"):
                st.events.append(("push", c.args[1]))
                return [(st, ("unit",))]
            return None

        def on_switch(eng, st, v, t, b, kind=kind):
            if v[0] == "discr" and v[1][0] == "mapentry":
                want = v[1][1]
                for val, tgt in t["arms"] + [[None, t["else"]]]:
                    names = set()
                    for s in blocks[tgt]["st"]:
                        for pl in (s.get("lhs"), (s.get("rv") or {}).get("p"),
                                   ((s.get("rv") or {}).get("o") or {}).get("move"),
                                   ((s.get("rv") or {}).get("o") or {}).get("copy")):
                            if pl:
                                for e in pl["p"]:
                                    if isinstance(e, dict) and "as" in e:
                                        names.add(e["as"])
                    if want in names:
                        return [(tgt, st)]
                return []
            return None

        eng = Engine(body, models=models, stop_blocks=heads, on_switch=on_switch)
        res = eng.run(wl["head"], Path())
        if not res:
            rows[(kind, old, new)] = ("no path", None)
            continue
        outcomes = set()
        for st, end in res:
            pushed = any(e[0] == "push" for e in st.events)
            st_stores = [e[1] for e in st.events if e[0] == "store"]
            if end[0] == "STOP" and end[1] == wl["head"] and not pushed:
                outcomes.add((False, tuple(st_stores)))
            elif end[0] == "STOP" or pushed:
                outcomes.add((True, tuple(st_stores)))
            else:
                outcomes.add(("?" + end[0], tuple(st_stores)))
        rows[(kind, old, new)] = outcomes
    bad = []
    for key, (exp_proceed, exp_store) in C_TABLE.items():
        got = rows.get(key)
        exp_stores = () if exp_store is None else (("int", exp_store, "bool"),)
        if got != {(exp_proceed, exp_stores)}:
            bad.append("%s old=%s new=%s: expected %s, found %s" % (
                key[0], key[1], key[2],
                ("proceed and store %s" % bool(exp_store)) if exp_proceed else "skip",
                sorted(got, key=repr) if isinstance(got, set) else got))
    if bad:
        return False, "; ".join(bad), rows
    return True, "map entry: created on first visit, raised false->true once, never lowered; " \
                 "body proceeds only then (6 cases)", rows


def idiom_e(body, wl):
    """Finite-height marks: a table indexed by the popped item's key holds a value of a field-less enum;
    the body proceeds past the look-up only on paths that change the entry, and the changes follow an
    acyclic order on the variants (a mark never returns to an earlier value). Each key is then worked
    on at most (number of variants - 1) times, so the pushes are bounded. Decided by exploring the loop
    body once per (old mark, flag of the popped item) with the table look-up modelled as a cell holding
    the old mark."""
    blocks = body["mir"]["blocks"]
    lex = wl.get("lex")
    if lex is None:
        return False, "no crate information"
    locals_ = body["mir"]["locals"]
    marks = None
    for bi, name, t in cfg.calls_in(blocks, wl["members"]):
        if (name or "").endswith("IndexMut>::index_mut") and not t["dest"]["p"]:
            m = re.match(r"^&mut (.+)$", str(locals_[t["dest"]["l"]]))
            ety = m.group(1) if m else ""
            adt = lex.adt(ety) if m else None
            if adt is not None and len(adt["variants"]) >= 2 and all(not v["fields"] for v in adt["variants"]):
                marks = (ety, [(v["name"], ("adt", ety, v["name"], i, ())) for i, v in enumerate(adt["variants"])])
            elif ety == "bool":
                marks = (ety, [("false", ("int", 0, "bool")), ("true", ("int", 1, "bool"))])
            elif ety == "std::option::Option<bool>":
                marks = (ety, [("None", NONE), ("Some(false)", some(("int", 0, "bool"))),
                               ("Some(true)", some(("int", 1, "bool")))])
    if marks is None:
        return False, "no table of marks (a field-less enum, bool or Option<bool>) indexed in the loop"
    mty, domain = marks
    variants = [n for n, _ in domain]
    value_name = {repr(v): n for n, v in domain}
    heads = set(wl["loops"])
    elem_ty = None
    m = re.match(r"^std::option::Option<(.+)>$", locals_[blocks[wl["pop"]]["term"]["dest"]["l"]])
    if m:
        elem_ty = m.group(1)
    iadt = lex.adt(elem_ty) if (elem_ty and not elem_ty.startswith("(")) else None
    has_flag = bool(elem_ty) and "bool" in elem_ty if iadt is None else any(
        f["ty"] == "bool" for f in iadt["variants"][0]["fields"])

    def popped_value(flag):
        if iadt is not None and len(iadt["variants"]) == 1:
            v = iadt["variants"][0]
            fields = tuple((f["name"], ("int", flag, "bool") if f["ty"] == "bool" else ("sym", f["name"]))
                           for f in v["fields"])
            return ("adt", elem_ty, v["name"], 0, fields)
        if elem_ty and elem_ty.startswith("("):
            n = elem_ty.count(",") + 1
            parts = [p.strip() for p in elem_ty.strip("()").split(",")]
            return ("tuple", tuple(("int", flag, "bool") if p == "bool" else ("sym", "f%d" % i)
                                   for i, p in enumerate(parts)))
        return ("sym", "item")
    edges = set()
    bad = []
    cases = 0
    for oi, old in enumerate(variants):
        for flag in ((0, 1) if has_flag else (0,)):
            cases += 1

            def models(eng, st, c, flag=flag):
                n = c.callee or ""
                if n == "std::vec::Vec::pop":
                    return [(st, some(popped_value(flag)))]
                if n.endswith("IndexMut>::index_mut"):
                    return [(st, ("ref", ("sym", "mark"), ()))]
                if n == "std::vec::Vec::push" or n.endswith("std::iter::Extend>::extend"):
                    st.events.append(("push", c.args[1]))
                    return [(st, ("unit",))]
                return None
            eng = Engine(body, models=models, stop_blocks=heads)
            st0 = Path()
            st0.set_cell(("sym", "mark"), (), domain[oi][1])
            res = eng.run(wl["head"], st0)
            if not res:
                bad.append("%s, flag %s: no path" % (old, flag))
                continue
            for st, end in res:
                pushed = any(e[0] == "push" for e in st.events)
                fin = (st.cells.get(("sym", "mark")) or {}).get(())
                fin_name = value_name.get(repr(fin))
                if fin_name is None and fin is not None and fin[0] == "adt" and fin[1] == mty:
                    fin_name = fin[2]
                proceeds = pushed or not (end[0] == "STOP" and end[1] == wl["head"])
                if fin_name is None:
                    bad.append("%s, flag %s: the mark is overwritten by an unknown value" % (old, flag))
                elif proceeds and fin_name == old:
                    bad.append("%s, flag %s: the body proceeds without changing the mark" % (old, flag))
                elif fin_name != old:
                    edges.add((old, fin_name))
    # the changes must follow an acyclic order
    order = {v: set() for v in variants}
    for a, b in edges:
        order[a].add(b)
    def reach(a, seen):
        for b in order[a]:
            if b not in seen:
                seen.add(b)
                reach(b, seen)
        return seen
    for v in variants:
        if v in reach(v, set()):
            bad.append("mark %s can return to itself (%s)" % (v, sorted(edges)))
    if bad:
        return False, "; ".join(bad[:4])
    return True, "table of %d-valued marks: the body proceeds only when the popped key's mark changes, along %s " \
                 "(%d cases)" % (len(variants), sorted(edges), cases)


def idiom_d(body, wl):
    """Traversal of a finite tree with an explicit stack: every item that is pushed carries, in each
    field of a recursive type (a reference to / box of the type the popped payload has), a strict
    sub-part of the popped item's payload; items without such a field push nothing further. The
    multiset of payload sizes decreases, so the loop terminates."""
    from .rules_thompson import Sym, contains, _is_call
    lex = wl.get("lex")
    if lex is None:
        return False, "no crate information"
    blocks = body["mir"]["blocks"]
    sym = Sym(body, {}, crate=lex)
    W = wl["W"]

    def from_pop(t):
        return contains(t, lambda x: _is_call(x, "Vec::pop") and x[3] and x[3][0] == W)
    n = 0
    for pb in wl["pushes"]:
        t = blocks[pb]["term"]
        v = sym.operand(t["args"][1])
        if (norm_path(t.get("resp") or t["f"].get("path")) or "").endswith("Extend>::extend"):
            v = sym.elem(v)
        alts = list(v[1]) if v[0] == "phi" else [v]
        for a in alts:
            if not (a[0] == "agg" and a[1].startswith("adt:")):
                return False, "a pushed value is not a freshly built item"
            path, variant = a[1][4:].rsplit(":", 1)
            adt = lex.adt(path)
            if adt is None:
                return False, "unknown item type %s" % path
            fields = next((vv["fields"] for vv in adt["variants"] if vv["name"] == variant), None)
            if fields is None or len(fields) != len(a[2]):
                return False, "item shape not understood"
            # recursive fields: same type as some payload field that the traversal descends into
            for f, op in zip(fields, a[2]):
                if not from_pop(op):
                    if "&" in f["ty"] or "Box<" in f["ty"]:
                        return False, "a pushed %s.%s does not come from the popped item" % (variant, f["name"])
                    continue
                if not ("&" in f["ty"] or "Box<" in f["ty"]):
                    continue        # plain data copied from the popped item (state indices, flags)
                downs = [p for p in op[2] if p[0] == "as"] if op[0] == "path" else []
                if len(downs) < 3:  # Some, the item's variant, and at least one variant of the payload
                    return False, "pushed %s.%s is not a strict sub-part of the popped payload" % (variant, f["name"])
                n += 1
    if n == 0:
        return False, "no pushed item descends into the popped payload"
    return True, "every pushed item descends into a strict sub-part of the popped payload (%d descents)" % n


def push_flag_sources(body, wl):
    """For a worklist of (item, flag) tuples: the local each push takes its flag from.
    Returns {push block: source local or a printed operand}."""
    blocks = body["mir"]["blocks"]
    out = {}
    for pb in wl["pushes"]:
        t = blocks[pb]["term"]
        v = t["args"][1].get("move") or t["args"][1].get("copy")
        if v is None or v["p"]:
            continue
        tup = None
        assigns = {}
        for st in blocks[pb]["st"]:
            if "lhs" in st and not st["lhs"]["p"]:
                assigns[st["lhs"]["l"]] = st["rv"]
        rv = assigns.get(v["l"])
        if rv is None or rv["k"] != "agg" or rv["kind"].get("agg") != "tuple" or len(rv["ops"]) != 2:
            continue
        fop = rv["ops"][1]
        fl = fop.get("move") or fop.get("copy")
        if fl is None:
            out[pb] = json_key(fop)
            continue
        src = fl["l"]
        for _ in range(4):
            r2 = assigns.get(src)
            if r2 is not None and r2["k"] == "use":
                q = r2["o"].get("copy") or r2["o"].get("move")
                if q is not None and not q["p"]:
                    src = q["l"]
                    continue
            break
        out[pb] = src
    return out


def json_key(o):
    import json as _json
    return _json.dumps(o, sort_keys=True)


EXPECTED_WORKLISTS = {"nfa::NFA::compute_state_closure", "nfa_to_dfa::nfa_to_dfa",
                      "dfa::backtrack::update_backtracks"}


def check_rwl(ctx, prog):
    lex = prog.crate(LEX)
    found = {}
    from .inline import is_anchor
    for b in lex.ibodies():
        if b["from_expansion"] or not is_anchor(norm_path(b["path"])):
            continue            # helpers are analysed where they are inlined
        for wl in worklist_loops(b, lex):
            name = norm_path(b["path"])
            found.setdefault(name, []).append(wl)
            oka, wa = idiom_a(b, wl)
            okb, wb = idiom_b(b, wl)
            okc, wc, _ = idiom_c(b, wl)
            okd, wd = (False, "") if (oka or okb or okc) else idiom_d(b, wl)
            oke, we = (False, "") if (oka or okb or okc or okd) else idiom_e(b, wl)
            which = "A" if oka else "B" if okb else "C" if okc else "D" if okd else "E" if oke else None
            ctx.ob("R-WL", "worklist loop in %s makes progress (idiom %s: %s)" % (
                name, which, wa if oka else wb if okb else wc if okc else wd if okd else we if oke else "none"),
                which is not None, key="R-WL:%s" % name,
                where="%s (loop head bb%d)" % (b["span"], wl["head"]),
                detail={"A": wa, "B": wb, "C": wc, "D": wd, "E": we,
                        "meaning": "a worklist whose pushes are not bounded by a growing visited "
                                   "set / monotone map may never empty: macro expansion hangs, or "
                                   "flags depend on visit order"})
            ctx.sample({"worklist": name, "idiom": which,
                        "why": wa if oka else wb if okb else wc if okc else wd if okd else we})
    ctx.floor("worklist loops in crate lexgen (state closure, subset construction, backtrack flags)",
              sum(len(v) for v in found.values()), 3)
    # the worklist whose items carry a boolean flag (the backtrack pass, wherever it lives): the flag of
    # a state must be monotone (C) - flags = OR over all visits - and all successors inherit one flag
    from .rules_thompson import Sym, project, show as show_term
    flagged = []
    for name, wls in sorted(found.items()):
        fb = lex.body(name)
        for wl in wls:
            ty = fb["mir"]["locals"][fb["mir"]["blocks"][wl["pop"]]["term"]["dest"]["l"]]
            m = re.match(r"^std::option::Option<(.+)>$", ty)
            et = m.group(1) if m else ""
            has_flag = (et.startswith("(") and "bool" in et)
            adt = lex.adt(et) if et and not et.startswith("(") else None
            if adt is not None and len(adt["variants"]) == 1:
                has_flag = any(f["ty"] == "bool" for f in adt["variants"][0]["fields"])
            if has_flag:
                flagged.append((name, fb, wl, adt))
    ctx.ob("R-WL", "the pass that computes the backtrack flags (a worklist of (state, flag) items) is found",
           len(flagged) == 1, key="R-WL:anchor:flags", detail=[n for n, _, _, _ in flagged])
    for name, ub, wl, adt in flagged:
        okc, wc, rows = idiom_c(ub, wl)
        oka, wa = idiom_a(ub, wl)
        oke, we = (False, "") if (okc or oka) else idiom_e(ub, wl)
        ctx.ob("R-WL", "update_backtracks: a state's backtrack flag is only ever raised "
               "(monotone) or each (state, flag) pair is visited once", okc or oka or oke,
               key="R-WL:update_backtracks:monotone", where=ub["span"], detail=[wc, we])
        sym = Sym(ub, {}, crate=lex)
        flag_path = (("f", 1),)
        if adt is not None:
            fields = [f["name"] for f in adt["variants"][0]["fields"]]
            flag_path = (("f", [f["ty"] for f in adt["variants"][0]["fields"]].index("bool")),)
        flags = {}
        for pb in wl["pushes"]:
            t = ub["mir"]["blocks"][pb]["term"]
            v = sym.operand(t["args"][1])
            if (norm_path(t.get("resp") or t["f"].get("path")) or "").endswith("Extend>::extend"):
                v = sym.elem(v)
            flags[pb] = project(v, flag_path)
        shown = {("bb%d" % b): show_term(v)[:120] for b, v in sorted(flags.items())}
        ctx.ob("R-WL", "update_backtracks: all successors are queued with the same flag "
               "(sibling agreement over %d queueing site(s))" % len(flags),
               len(flags) == len(wl["pushes"]) and len(set(flags.values())) == 1 and len(flags) >= 1
               and not any(v == ("nothing",) for v in flags.values()),
               key="R-WL:update_backtracks:siblings", where=ub["span"],
               detail={"flag per queueing site": shown,
                       "meaning": "the char, range, `_` and end-of-input successors of a state "
                                  "must inherit the same backtrack flag; a push that passes a "
                                  "different value leaves one kind of successor unmarked (that all "
                                  "four kinds are visited is R-EXH)"})
    return found


# ------------------------------------------------------------------------------------ R-EXH
DFA_FIELDS = ("char_transitions", "range_transitions", "any_transition", "end_of_input_transition")
NFA_ACCESSORS = ("char_transitions", "range_transitions", "any_transitions", "end_of_input_transitions")


def fields_read(body, adt_prefix, names):
    """Which of `names` (fields of ADTs whose path starts with adt_prefix) the body mentions outside
    drop terminators and cleanup blocks."""
    seen = set()

    def scan_place(pl):
        for e in pl["p"]:
            if isinstance(e, dict) and "f" in e:
                f = e["f"]
                if f.startswith(adt_prefix):
                    n = f.rsplit(".", 1)[-1]
                    if n in names:
                        seen.add(n)

    def scan_op(o):
        for k in ("copy", "move"):
            if k in o:
                scan_place(o[k])

    for bb in body["mir"]["blocks"]:
        if bb["cleanup"]:
            continue
        for st in bb["st"]:
            if "lhs" in st:
                scan_place(st["lhs"])
                rv = st["rv"]
                if "p" in rv and isinstance(rv["p"], dict):
                    scan_place(rv["p"])
                for k in ("o", "a", "b"):
                    if k in rv and isinstance(rv[k], dict):
                        scan_op(rv[k])
                for o in rv.get("ops", []):
                    scan_op(o)
        t = bb["term"]
        if t["k"] == "call":
            for a in t["args"]:
                scan_op(a)
            scan_place(t["dest"])
        elif t["k"] == "switch":
            scan_op(t["d"])
    return seen


def check_rexh(ctx, prog):
    lex = prog.crate(LEX)
    inst = []
    for b in lex.bodies:
        name = norm_path(b["path"])
        if b["from_expansion"] or "fmt::Display" in name or "fmt::Debug" in name or "::fmt" in name:
            continue
        if name.startswith("tests::") or "::simulate" in name or "::tests::" in name:
            continue
        seen = fields_read(b, "dfa::State::State.", DFA_FIELDS)
        if len(seen) >= 2:
            inst.append(name)
            missing = [f for f in DFA_FIELDS if f not in seen]
            ctx.ob("R-EXH", "%s treats all four DFA transition kinds" % name, not missing,
                   key="R-EXH:dfa:%s" % name, where=b["span"],
                   detail={"reads": sorted(seen), "missing": missing,
                           "meaning": "a pass that looks at some successor kinds of a DFA state but "
                                      "not all silently ignores the others"})
        # aggregate construction of dfa::State with all fields is also a 'treatment' (add_dfa,
        # simplify) and is covered by the reads of the destructured value
    ctx.floor("functions handling several DFA transition kinds", len(inst), 3)
    # NFA side: accessor calls
    ninst = []
    for b in lex.bodies:
        name = norm_path(b["path"])
        if b["from_expansion"] or "::simulate" in name or name.startswith("tests::") or "::fmt" in name:
            continue
        called = set()
        for bi, callee, t in cfg.calls_in(b["mir"]["blocks"]):
            m = re.match(r"^nfa::NFA::(\w+)$", callee or "")
            if m and m.group(1) in NFA_ACCESSORS:
                called.add(m.group(1))
        if called:
            ninst.append(name)
            missing = [f for f in NFA_ACCESSORS if f not in called]
            ctx.ob("R-EXH", "%s consults all four NFA transition kinds" % name, not missing,
                   key="R-EXH:nfa:%s" % name, where=b["span"],
                   detail={"calls": sorted(called), "missing": missing})
    ctx.floor("functions consulting NFA transition accessors", len(ninst), 1)
    for n in inst + ninst:
        ctx.sample({"R-EXH instance": n})
    return inst, ninst


# ------------------------------------------------------------------------------------ R-DET
NONDET = re.compile(r"std::hash::RandomState|std::collections::hash_map::RandomState|"
                    r"std::time::|std::env::|std::thread::|std::process::id|\brand::|getrandom|"
                    r"std::fs::|std::net::|SystemTime|Instant::now|thread_rng")


def default_hasher_types(ty):
    """`HashMap<K, V>` / `HashSet<T>` occurrences printed without a hasher argument: rustc omits a
    type argument only when it is the default, i.e. `std::hash::RandomState`."""
    out = []
    for kind, need in (("std::collections::HashMap<", 3), ("std::collections::HashSet<", 2)):
        start = 0
        while True:
            i = ty.find(kind, start)
            if i < 0:
                break
            j = i + len(kind)
            depth = 1
            args = 1
            k = j
            while k < len(ty) and depth:
                ch = ty[k]
                if ch in "<([":
                    depth += 1
                elif ch in ">)]":
                    if ch == ">" and ty[k - 1] == "-":
                        pass
                    else:
                        depth -= 1
                elif ch == "," and depth == 1:
                    args += 1
                k += 1
            if args < need:
                out.append(ty[i:k])
            start = j
    return out


def check_rdet(ctx, prog):
    lex = prog.crate(LEX)
    n_loc = n_call = 0
    for b in lex.bodies:
        name = norm_path(b["path"])
        if name.startswith("tests::") or "::simulate" in name or "::tests::" in name:
            continue
        for i, ty in enumerate(b["mir"]["locals"]):
            n_loc += 1
            m = NONDET.search(ty)
            dh = default_hasher_types(ty)
            if m or dh:
                what = m.group(0) if m else "default-hasher " + dh[0].split("<")[0].rsplit("::", 1)[-1]
                ctx.ob("R-DET", "%s: local _%d has a nondeterministically seeded type" % (name, i),
                       False, key="R-DET:type:%s:%s" % (name, what), where=b["span"],
                       detail={"type": ty[:200],
                               "meaning": "iteration order of a RandomState map differs between "
                                          "runs: expanding the same definition twice can give "
                                          "different code"})
        for bb in b["mir"]["blocks"]:
            t = bb["term"]
            if t["k"] == "call":
                n_call += 1
                full = (t.get("res") or "") + " " + (t["f"].get("fn") or "")
                m = NONDET.search(full)
                if m:
                    ctx.ob("R-DET", "%s calls a nondeterministic API" % name, False,
                           key="R-DET:call:%s:%s" % (name, m.group(0)), where=bb.get("span"),
                           detail=full[:300])
    for a in lex.data["adts"]:
        for v in a["variants"]:
            for f in v["fields"]:
                m = NONDET.search(f["ty"]) or (default_hasher_types(f["ty"]) and True)
                if m:
                    ctx.ob("R-DET", "%s.%s has a nondeterministically seeded type" % (a["path"], f["name"]),
                           False, key="R-DET:field:%s.%s" % (a["path"], f["name"]), where=a["span"],
                           detail=f["ty"][:200])
    for s in lex.data["statics"]:
        ctx.ob("R-DET", "static %s is immutable" % s["path"], not s["mutable"],
               key="R-DET:static:%s" % s["path"], where=s["span"]) if s["mutable"] else None
    ctx.ob("R-DET", "crate lexgen: no RandomState container, time/env/thread/rand API or mutable "
           "static (%d locals, %d call sites scanned)" % (n_loc, n_call), True)
    ctx.count("rdet_locals_scanned", n_loc)
    ctx.count("rdet_calls_scanned", n_call)
    ctx.floor("lexgen call sites scanned by R-DET", n_call, 1000)


# ---------------------------------------------------------------------------------- R-PARSE
TOKEN_RE = re.compile(r"syn::parse::ParseBuffer::peek::<.*?(syn::token::(\w+)|syn::Lit(\w+)|syn::Ident)")


def peeked_tokens(body):
    """Token kinds tested with `input.peek(..)` in the body, in order."""
    out = []
    for bi, callee, t in cfg.calls_in(body["mir"]["blocks"]):
        if callee in ("syn::parse::ParseBuffer::peek", "syn::lookahead::Lookahead1::peek", "syn::parse::Lookahead1::peek"):
            # `input.peek(T)`, or `let l = input.lookahead1(); l.peek(T)`
            full = t.get("res") or t["f"].get("fn") or ""
            m = re.search(r"fn\(.*?\) -> (?:syn::token::(\w+)|syn::(Lit\w+)|syn::(Ident)) \{", full)
            if m:
                out.append((m.group(1) or m.group(2) or m.group(3), bi))
            else:
                out.append(("?" + full[-60:], bi))
        elif callee == "syn::parse::ParseBuffer::parse":
            # `input.parse::<Option<T>>()?.is_some()` tests for T and consumes it in one step
            full = t.get("res") or t["f"].get("fn") or ""
            m = re.search(r"parse::<std::option::Option<(?:syn::token::(\w+)|syn::(Lit\w+)|syn::(Ident))>>", full)
            if m:
                out.append((m.group(1) or m.group(2) or m.group(3), bi))
    return out


def parsed_tokens(body):
    out = []
    for bi, callee, t in cfg.calls_in(body["mir"]["blocks"]):
        if callee == "syn::parse::ParseBuffer::parse":
            full = t.get("res") or t["f"].get("fn") or ""
            m = re.search(r"parse::<(?:std::option::Option<)?(?:syn::token::(\w+)|syn::(Lit\w+)|syn::(Ident))>", full)
            if m:
                out.append((m.group(1) or m.group(2) or m.group(3), bi))
    return out


def local_calls(body, prefix="ast::parse_"):
    return [(callee, bi) for bi, callee, t in cfg.calls_in(body["mir"]["blocks"])
            if callee and callee.startswith(prefix)]


def regex_nodes_built(body):
    out = set()
    for bb in body["mir"]["blocks"]:
        if bb["cleanup"]:
            continue
        for st in bb["st"]:
            rv = st.get("rv")
            if rv and rv["k"] == "agg" and (rv["kind"] or {}).get("adt") == "ast::Regex":
                out.add(rv["kind"]["variant"])
    return out


def discover_parser_levels(lex):
    """The five precedence levels of the regex parser: {historical name: function path}. A level is the
    function of that name if it exists; otherwise the one function of module `ast` that builds one of
    the level's node kinds (so that renaming the levels does not matter, and a level that builds a
    wrong node is still that level)."""
    want = {"parse_regex_0": {"Or"}, "parse_regex_1": {"Concat"},
            "parse_regex_2": {"ZeroOrMore", "ZeroOrOne", "OneOrMore"}, "parse_regex_3": {"Diff"},
            "parse_regex_4": {"Char", "String"}}
    found = {}
    for k in want:
        if lex.raw_body("ast::" + k) is not None:
            found[k] = ["ast::" + k]
    named = {v[0] for v in found.values()}
    for b in lex.bodies:
        name = norm_path(b["path"])
        if not name.startswith("ast::") or "{closure" in name or name.startswith("<") or b["from_expansion"] \
                or name in named:
            continue
        built = regex_nodes_built(b)
        for k, w in want.items():
            if k in found and found[k][0] in named:
                continue
            if built & w:
                found.setdefault(k, []).append(name)
    return {k: v[0] for k, v in found.items() if len(v) == 1}


def check_rparse(ctx, prog):
    from . import inline as _inl
    lex = prog.crate(LEX)
    levels = discover_parser_levels(lex)
    level_names = set(levels.values())
    # the entry (`parse_regex`: what a parenthesised group recurses into) is what the atom level calls
    # among the functions that lead to the alternation level; charset parser: the other callee
    missing = [k for k in ("parse_regex_0", "parse_regex_1", "parse_regex_2", "parse_regex_3", "parse_regex_4")
               if k not in levels]
    if missing:
        ctx.notes.append("R-PARSE: the regex parser is not in the recognised layered shape (no single function "
                         "builds the nodes of level(s) %s); precedence and associativity are decided by the "
                         "prec / ops witness families only" % ", ".join(missing))
        return

    def is_level_or_anchor(n):
        return n in level_names or n in ("ast::parse_regex", "ast::parse_regex_ctx", "ast::parse_charset") \
            or _inl.is_anchor(n)

    def level_body(path):
        return _inl.inline_body(lex, lex.raw_body(path), anchor_pred=is_level_or_anchor)[0]
    fn = {k: level_body(p) for k, p in levels.items()}
    for opt in ("parse_regex", "parse_regex_ctx", "parse_charset"):
        rb = lex.raw_body("ast::" + opt)
        if rb is not None:
            fn[opt] = level_body("ast::" + opt)
    disp = {k: levels[k].split("::")[-1] for k in levels}
    indirect = [disp[k] for k in ("parse_regex_0", "parse_regex_1", "parse_regex_2", "parse_regex_3")
                if not regex_nodes_built(fn[k])]
    if indirect:
        ctx.notes.append("R-PARSE: level(s) %s build their nodes indirectly (a constructor passed as a function "
                         "value to a generic helper); the layered shape cannot be read off, precedence and "
                         "associativity are decided by the prec / ops witness families only" % ", ".join(indirect))
        return
    # layering: each level parses its operands with the next level only
    order = ["parse_regex_0", "parse_regex_1", "parse_regex_2", "parse_regex_3", "parse_regex_4"]
    for i, k in enumerate(order[:-1]):
        got = {c for c, _ in local_calls(fn[k], prefix="ast::") if c in level_names}
        allowed = {levels[order[i + 1]]}
        ctx.ob("R-PARSE", "%s parses its operands only with %s" % (disp[k], sorted(x.split("::")[-1] for x in allowed)),
               got == allowed, key="R-PARSE:layer:" + k, where=fn[k]["span"], detail={"calls": sorted(got)})
    got4 = {c for c, _ in local_calls(fn["parse_regex_4"], prefix="ast::")}
    lower = {levels[k] for k in order[1:]}
    ctx.ob("R-PARSE", "%s re-enters the grammar only at the top (a parenthesised group is a whole regex)" % disp["parse_regex_4"],
           not (got4 & lower), key="R-PARSE:layer:parse_regex_4", where=fn["parse_regex_4"]["span"],
           detail={"calls": sorted(got4)})
    if "parse_regex" in fn:
        got = {c for c, _ in local_calls(fn["parse_regex"], prefix="ast::") if c in level_names}
        ctx.ob("R-PARSE", "parse_regex starts at the alternation level", got == {levels["parse_regex_0"]},
               key="R-PARSE:layer:parse_regex", where=fn["parse_regex"]["span"], detail={"calls": sorted(got)})
    # an atom is one token (or one bracketed / parenthesised group): parse_regex_4 consumes each kind
    # of literal at one place and has no loop of its own, so that a postfix operator that follows
    # applies to that atom alone
    p4 = parsed_tokens(fn["parse_regex_4"])
    for lit in ("LitStr", "LitChar"):
        n_lit = sum(1 for t, _ in p4 if t == lit)
        ctx.ob("R-PARSE", "parse_regex_4 consumes exactly one %s token for a %s atom" % (
            lit, "string" if lit == "LitStr" else "character"), n_lit == 1,
            key="R-PARSE:atom:" + lit, where=fn["parse_regex_4"]["span"], detail={"parse sites": n_lit})
    loops4, _dom4, _preds4 = cfg.natural_loops(fn["parse_regex_4"]["mir"]["blocks"])
    ctx.ob("R-PARSE", "parse_regex_4 has no loop: an atom does not absorb the tokens that follow it",
           not loops4, key="R-PARSE:atom:loop", where=fn["parse_regex_4"]["span"],
           detail={"loop headers": sorted(loops4)})
    # operators per level
    ops = {"parse_regex_0": {"Or"}, "parse_regex_2": {"Star", "Question", "Plus"},
           "parse_regex_3": {"Pound"}}
    for n, exp in ops.items():
        got = {t for t, _ in peeked_tokens(fn[n])}
        ctx.ob("R-PARSE", "%s is driven by exactly the operator tokens %s" % (n, sorted(exp)),
               got == exp, key="R-PARSE:ops:" + n, where=fn[n]["span"], detail={"peeks": sorted(got)})
        gotp = {t for t, _ in parsed_tokens(fn[n])}
        ctx.ob("R-PARSE", "%s consumes the operator tokens it peeks" % n, gotp == exp,
               key="R-PARSE:consume:" + n, where=fn[n]["span"], detail={"parses": sorted(gotp)})
    # node built per operator
    built = {"parse_regex_0": {"Or"}, "parse_regex_1": {"Concat"},
             "parse_regex_2": {"ZeroOrMore", "ZeroOrOne", "OneOrMore"}, "parse_regex_3": {"Diff"}}
    for n, exp in built.items():
        got = set()
        accum_ok = True
        for bb in fn[n]["mir"]["blocks"]:
            for st in bb["st"]:
                rv = st.get("rv")
                if rv and rv["k"] == "agg" and rv["kind"].get("adt") == "ast::Regex":
                    got.add(rv["kind"]["variant"])
        ctx.ob("R-PARSE", "%s builds exactly the nodes %s" % (n, sorted(exp)), got == exp,
               key="R-PARSE:nodes:" + n, where=fn[n]["span"], detail={"builds": sorted(got)})
    # star/question/plus -> node mapping (token tested dominates node built)
    check_postfix_mapping(ctx, fn["parse_regex_2"])
    # left associativity: in binary levels the accumulator is operand 0
    for n in ("parse_regex_0", "parse_regex_1", "parse_regex_3"):
        ok, detail = left_assoc(fn[n], commutative=(n == "parse_regex_0"))
        ctx.ob("R-PARSE", "%s is left-associative (accumulated tree is the left operand)" % n, ok,
               key="R-PARSE:assoc:" + n, where=fn[n]["span"], detail=detail)
    # peek-set agreement between the concatenation loop and the atom parser
    p1 = {t for t, _ in peeked_tokens(fn["parse_regex_1"])}
    p4 = {t for t, _ in peeked_tokens(fn["parse_regex_4"])} | \
         {t for t, _ in parsed_tokens(fn["parse_regex_4"]) if t == "Underscore"}
    ctx.ob("R-PARSE", "concatenation continues exactly on the tokens that can start an atom",
           p1 == p4, key="R-PARSE:peekset", where=fn["parse_regex_1"]["span"],
           detail={"parse_regex_1 continues on": sorted(p1), "parse_regex_4 accepts": sorted(p4),
                   "meaning": "an atom kind missing from the continuation test ends a "
                              "concatenation early: `'a' _` would stop after 'a'"})
    ctx.floor("peek set of the concatenation loop", len(p1), 6)
    # right context is parsed after the regex, introduced by `>`
    if "parse_regex_ctx" in fn:
        pc = {t for t, _ in peeked_tokens(fn["parse_regex_ctx"])}
        ctx.ob("R-PARSE", "right context is introduced by `>`", pc == {"Gt"}, key="R-PARSE:ctx",
               where=fn["parse_regex_ctx"]["span"], detail=sorted(pc))
    ctx.sample({"parse_regex_1 peeks": sorted(p1), "parse_regex_4 accepts": sorted(p4)})


def check_postfix_mapping(ctx, body):
    blocks = body["mir"]["blocks"]
    dom, preds = cfg.dominators(blocks)
    want = {"Star": "ZeroOrMore", "Question": "ZeroOrOne", "Plus": "OneOrMore"}
    peeks = {}
    for tok, bi in peeked_tokens(body):
        peeks[tok] = bi
    for bi, bb in enumerate(blocks):
        for st in bb["st"]:
            rv = st.get("rv")
            if rv and rv["k"] == "agg" and rv["kind"].get("adt") == "ast::Regex":
                node = rv["kind"]["variant"]
                toks = [t for t, pb in peeks.items()
                        if true_edge_dominates(blocks, dom, pb, bi)]
                # innermost dominating test decides
                exp = [t for t, n in want.items() if n == node]
                ok = bool(exp) and exp[0] in toks and all(
                    want.get(t) == node or not strictly_inner(blocks, dom, peeks, t, exp[0])
                    for t in toks)
                ctx.ob("R-PARSE", "postfix `%s` builds %s" % (exp[0] if exp else "?", node), ok,
                       key="R-PARSE:postfix:" + node, where=bb.get("span"), detail={"guards": toks})


def strictly_inner(blocks, dom, peeks, t, other):
    """Is the test of token t nested inside the true branch of `other`'s test?"""
    return true_edge_dominates(blocks, dom, peeks[other], peeks[t]) if t != other else False


def left_assoc(body, commutative=False):
    """In `re = Node(Box::new(re), Box::new(re2))` operand 0 derives from the accumulator."""
    blocks = body["mir"]["blocks"]
    names = body["mir"].get("names", {})
    acc = [int(k) for k, v in names.items() if v == "re"]
    if not acc:
        return False, "no local named `re`"
    acc = acc[0]
    # Box::new calls: dest local <- arg local
    boxed = {}
    for bi, callee, t in cfg.calls_in(blocks):
        if callee == "std::boxed::Box::new":
            a = t["args"][0].get("move") or t["args"][0].get("copy")
            if a is not None:
                boxed[t["dest"]["l"]] = a["l"]
    copies = {}
    for bb in blocks:
        for st in bb["st"]:
            rv = st.get("rv")
            if rv and rv["k"] == "use" and "lhs" in st and not st["lhs"]["p"]:
                q = rv["o"].get("move") or rv["o"].get("copy")
                if q is not None and not q["p"]:
                    copies.setdefault(st["lhs"]["l"], set()).add(q["l"])

    def origin(l, depth=0):
        if l == acc:
            return True
        if depth > 6:
            return False
        if l in boxed:
            return origin(boxed[l], depth + 1)
        return any(origin(x, depth + 1) for x in copies.get(l, ()))

    found = 0
    for bb in blocks:
        for st in bb["st"]:
            rv = st.get("rv")
            if rv and rv["k"] == "agg" and rv["kind"].get("adt") == "ast::Regex" and len(rv["ops"]) == 2:
                found += 1
                o0 = rv["ops"][0].get("move") or rv["ops"][0].get("copy")
                o1 = rv["ops"][1].get("move") or rv["ops"][1].get("copy")
                a0 = o0 is not None and origin(o0["l"])
                a1 = o1 is not None and origin(o1["l"])
                if commutative:
                    # `|` denotes union: which side holds the accumulated tree does not matter, but
                    # exactly one side must (the other is the freshly parsed operand)
                    if a0 == a1:
                        return False, "%s does not combine the accumulated tree with the new operand" % \
                            rv["kind"]["variant"]
                elif not a0 or a1:
                    return False, "operand 0 of %s is not the accumulated tree" % rv["kind"]["variant"]
    return found > 0, "%d binary node(s)" % found


# ---------------------------------------------------------------------------------- R-SCOPE
def scope_analysis(lex):
    """In `lexer` with its helpers inlined: the top-level bindings map B (the map every rule's
    `NFA::add_regex` call gets, directly or as a clone), and the add_regex calls."""
    from .rules_thompson import Sym, strip_clone
    b = lex.body("lexer")
    if b is None:
        return None
    sym = Sym(b, {1: "input"}, crate=lex)
    calls = sym.all_calls()
    regs = [(bi, a) for bi, c, a in calls if c == "nfa::NFA::add_regex" and len(a) >= 3]
    roots = {strip_clone(a[1]) for bi, a in regs}
    out = {"body": b, "sym": sym, "calls": calls, "regs": regs, "roots": roots, "undo": False}
    if len(roots) == 1:
        B = next(iter(roots))
        # "scoped by undo": a rule set's `let`s are inserted into the shared map only through a vacant
        # entry, each inserted variable is recorded in a list, and every recorded variable is removed
        # from the map again (after the rule set)
        ins_keys = set()
        vacant_only = True
        for bi, c, a in calls:
            if a and a[0] == B and len(a) > 1 and term_has(a[1], lambda y: y == ("as", "RuleSet")):
                if c.endswith("HashMap::entry"):
                    ins_keys.add(strip_clone(a[1]))
                elif c.endswith("HashMap::insert"):
                    vacant_only = False
        recorded = {}
        for bi, c, a in calls:
            if c == "std::vec::Vec::push" and len(a) == 2:
                v = strip_clone(a[1])
                if v in ins_keys:
                    recorded.setdefault(a[0], set()).add(v)
                else:
                    # `entry.key().clone()`: the key of the very entry the variable is inserted through
                    for k in ins_keys:
                        if term_has(v, lambda y, k=k: isinstance(y, tuple) and len(y) == 4 and y[0] == "call"
                                    and y[1].endswith("HashMap::entry") and y[3][0] == B
                                    and strip_clone(y[3][1]) == k):
                            recorded.setdefault(a[0], set()).add(k)
        removed_lists = set()
        for bi, c, a in calls:
            if c.endswith("HashMap::remove") and a and a[0] == B and len(a) > 1:
                for lst in recorded:
                    if term_has(a[1], lambda y, lst=lst: y == ("elem", lst)):
                        removed_lists.add(lst)
        out["undo"] = bool(ins_keys) and vacant_only and any(
            recorded.get(lst) == ins_keys for lst in removed_lists)
    return out


def check_rscope(ctx, prog):
    """Rules of a rule set are compiled against a copy of the top-level bindings; the top-level map
    itself only ever receives top-level `let`s."""
    from .rules_thompson import show as show_term
    lex = prog.crate(LEX)
    sa = scope_analysis(lex)
    if not ctx.ob("R-SCOPE", "proc macro entry `lexer` found", sa is not None, key="R-SCOPE:anchor"):
        return
    b, sym, calls, regs, roots = sa["body"], sa["sym"], sa["calls"], sa["regs"], sa["roots"]
    ctx.floor("places where a rule's regex is added to an automaton (NFA::add_regex, helpers inlined)", len(regs), 2)
    if not ctx.ob("R-SCOPE", "all rules are compiled against one top-level bindings map or a clone of it",
                  len(roots) == 1, key="R-SCOPE:bindings", where=b["span"],
                  detail=[show_term(x)[:160] for x in roots]):
        return
    B = next(iter(roots))
    n_rs = n_top = 0
    for bi, a in regs:
        in_rule_set = term_has(a[2], lambda y: y == ("as", "RuleSet"))
        if in_rule_set:
            n_rs += 1
            ctx.ob("R-SCOPE", "a rule of a rule set is compiled against a clone of the top-level bindings (or "
                   "against the shared map with the rule set's `let`s undone afterwards)",
                   a[1] != B or sa["undo"], key="R-SCOPE:clone", where=sym.blocks[bi].get("span"),
                   detail={"bindings": show_term(a[1])[:200],
                           "meaning": "a rule set's `let`s must not become visible in later rule sets"})
        else:
            n_top += 1
    ctx.ob("R-SCOPE", "rule-set rules and top-level rules are both compiled (%d / %d places)" % (n_rs, n_top),
           n_rs >= 1 and n_top >= 1, key="R-SCOPE:places", where=b["span"])
    # what is ever put into the top-level map: keys that come from a top-level `let` item
    READS = re.compile(r"(Clone>::clone|::clone|HashMap::get|HashMap::contains_key|HashMap::len|HashMap::iter|"
                       r"HashMap::is_empty|Index>::index|Deref>::deref|NFA::add_regex|RightCtxDFAs::new_right_ctx)$")
    bad = []
    n_mut = 0
    locals_ = b["mir"]["locals"]
    for bi, c, a in calls:
        if not a or a[0] != B or READS.search(c):
            continue
        t = sym.blocks[bi]["term"]
        q = t["args"][0].get("move") or t["args"][0].get("copy")
        ty = locals_[q["l"]] if q is not None and not q["p"] else ""
        if not str(ty).startswith("&mut"):
            continue
        n_mut += 1
        key = a[1] if len(a) > 1 else ("nothing",)
        from_rule_set = term_has(key, lambda y: y == ("as", "RuleSet"))
        if sa["undo"] and (from_rule_set or c.endswith("HashMap::remove")):
            continue            # inserted through a vacant entry, recorded, and removed again
        if not term_has(key, lambda y: y == ("as", "Binding")) or from_rule_set:
            bad.append((c, show_term(key)[:160]))
    ctx.ob("R-SCOPE", "the top-level bindings only ever receive top-level `let` items", not bad and n_mut >= 1,
           key="R-SCOPE:mut", where=b["span"], detail={"other writers": bad, "writers": n_mut})
    check_ctx_bindings(ctx, lex)


def check_ctx_bindings(ctx, lex):
    """The automaton of a right context depends on the bindings in scope (the context may mention a
    variable, and rule sets may bind the same name differently): on every path through
    RightCtxDFAs::new_right_ctx to its return, some call receives both the bindings and the context's
    regex. A path that hands out an index without consulting the bindings (a memo keyed by the regex as
    written) gives a rule the automaton of another scope, and skips the unbound-variable check."""
    from .rules_thompson import Sym, contains
    b = lex.body("right_ctx::RightCtxDFAs::new_right_ctx")
    if not ctx.ob("R-SCOPE", "RightCtxDFAs::new_right_ctx found", b is not None, key="R-SCOPE:ctx:anchor"):
        return
    blocks = b["mir"]["blocks"]
    argc = b["mir"].get("argc", 3)
    # parameters: self, bindings, right_ctx (by type)
    locals_ = b["mir"]["locals"]
    roles = {}
    for i in range(1, argc + 1):
        ty = str(locals_[i])
        if "HashMap" in ty or "Map<" in ty:
            roles[i] = "bindings"
        elif ty.endswith("ast::Regex") or "Regex" in ty:
            roles[i] = "right_ctx"
        else:
            roles[i] = "p%d" % i
    if not ctx.ob("R-SCOPE", "new_right_ctx takes the bindings in scope and the context's regex",
                  "bindings" in roles.values() and "right_ctx" in roles.values(), key="R-SCOPE:ctx:params",
                  where=b["span"], detail=[str(locals_[i]) for i in range(1, argc + 1)]):
        return
    sym = Sym(b, roles, crate=lex)
    dom = cfg.dominators(blocks)[0]
    both = []
    for bi, bb in enumerate(blocks):
        t = bb["term"]
        if bb["cleanup"] or t["k"] != "call":
            continue
        args = [sym.operand(a) for a in t["args"]]
        if any(contains(a, lambda y: y == ("param", "bindings")) for a in args) and \
                any(contains(a, lambda y: y == ("param", "right_ctx")) for a in args):
            both.append(bi)
    rets = [bi for bi, bb in enumerate(blocks) if not bb["cleanup"] and bb["term"]["k"] == "return" and bi in dom]
    ok = bool(both) and bool(rets) and all(any(c in dom[r] for c in both) for r in rets)
    ctx.ob("R-SCOPE", "every path through new_right_ctx compiles (or at least resolves) the context under the "
           "bindings it was given: a call that receives both dominates the return", ok, key="R-SCOPE:ctx:bindings",
           where=b["span"], detail={"calls that receive both": ["bb%d" % x for x in both],
                                    "meaning": "an index handed out without looking at the bindings belongs to "
                                               "another scope's automaton; an unbound variable in the context is "
                                               "not noticed"})


# ------------------------------------------------------------------------------------ R-CHK
def diverges_after(blocks, start, dom=None, limit=40):
    """Every path from `start` reaches a call with no return target (panic) or an `unreachable`
    without passing a `return`."""
    seen = set()
    work = [start]
    steps = 0
    panics = 0
    while work:
        b = work.pop()
        if b in seen:
            continue
        seen.add(b)
        steps += 1
        if steps > limit:
            return False
        t = blocks[b]["term"]
        if t["k"] == "return":
            return False
        if t["k"] == "call" and t["t"] < 0:
            panics += 1
            continue
        if t["k"] in ("unreachable", "unwind"):
            continue        # an infeasible arm of an exhaustive match: not a rejection by itself
        work.extend(cfg.succs(blocks, b))
    return panics > 0


def switch_after_call(blocks, bi):
    """(switch terminator, block) testing the discriminant of the call result of block bi."""
    t = blocks[bi]["term"]
    nxt = t["t"]
    hops = 0
    dest = t["dest"]["l"]
    while nxt >= 0 and hops < 6:
        bb = blocks[nxt]
        # discriminant of dest (possibly through a copy)
        for st in bb["st"]:
            rv = st.get("rv")
            if rv and rv["k"] == "discr" and rv["p"]["l"] == dest:
                if bb["term"]["k"] == "switch":
                    return bb["term"], nxt
            if rv and rv["k"] == "use" and (rv["o"].get("move") or rv["o"].get("copy") or {}).get("l") == dest \
                    and not st["lhs"]["p"]:
                dest = st["lhs"]["l"]
        if bb["term"]["k"] == "goto":
            nxt = bb["term"]["t"]
            hops += 1
            continue
        if bb["term"]["k"] == "call" and bb["term"]["t"] >= 0:
            # e.g. Option::is_some(&x) on the result
            t2 = bb["term"]
            a = t2["args"][0].get("move") or t2["args"][0].get("copy") if t2["args"] else None
            nxt = t2["t"]
            hops += 1
            continue
        break
    return None, None


def variant_target(blocks, sw, variant_names):
    """Target block of the switch arm whose block downcasts to one of variant_names, else None."""
    for val, tgt in sw["arms"] + [[None, sw["else"]]]:
        for st in blocks[tgt]["st"]:
            for pl in (st.get("lhs"), (st.get("rv") or {}).get("p"),
                       ((st.get("rv") or {}).get("o") or {}).get("move"),
                       ((st.get("rv") or {}).get("o") or {}).get("copy")):
                if pl:
                    for e in pl["p"]:
                        if isinstance(e, dict) and e.get("as") in variant_names:
                            return tgt
    return None


def guarded_divergences(lex, body, roles=None):
    """[(term of the tested value, block)] for every two-way or multi-way branch one of whose edges leads
    only to a panic: the value whose test decides the rejection, as a def-use term."""
    from .rules_thompson import Sym
    sym = Sym(body, roles or {}, crate=lex)
    blocks = body["mir"]["blocks"]
    out = []
    for bi, bb in enumerate(blocks):
        if bb["cleanup"]:
            continue
        t = bb["term"]
        if t["k"] != "switch":
            continue
        tgts = [tg for _, tg in t["arms"]] + [t["else"]]
        div = [tg for tg in tgts if diverges_after(blocks, tg)]
        if div and len(div) < len(tgts):
            out.append((sym.operand(t["d"]), bi))
    return out, sym


def term_has(t, pred):
    if pred(t):
        return True
    if isinstance(t, (tuple, frozenset)):
        return any(term_has(x, pred) for x in t)
    return False


def check_rchk(ctx, prog):
    lex = prog.crate(LEX)
    n = 0

    def site(rule_desc, key, ok, where, detail=None):
        nonlocal n
        n += 1
        ctx.ob("R-CHK", rule_desc, ok, key="R-CHK:" + key, where=where, detail=detail)

    # 1. unbound variable (add_re, regex_to_range_map) and 8. unknown built-in: a lookup whose failure
    #    diverges - `get(..).unwrap_or_else(|| panic!(..))`, `.expect(..)`, `.unwrap()`, `map[key]`, or a
    #    branch on the lookup's result one side of which panics. The lookup is recognised by what it is
    #    keyed with (the variable of a `Regex::Var`, the name of a `Regex::Builtin`), wherever it lives.
    from .rules_thompson import Sym as _Sym, _is_call as _isc

    def failing_lookup(fn_name, variant, what, key):
        b = lex.body(fn_name)
        if b is None:
            site("%s found" % fn_name, "anchor:" + fn_name, False, None)
            return
        sym = _Sym(b, {}, crate=lex)

        def keyed(t):
            return term_has(t, lambda y: isinstance(y, tuple) and len(y) == 3 and y[0] == "path"
                            and len(y[2]) >= 1 and ("as", variant) in y[2])
        ok = False
        n_lookups = 0
        for bi, c, a in sym.all_calls():
            if c.endswith("Option::unwrap_or_else") and len(a) == 2 and keyed(a[0]):
                n_lookups += 1
                clo = a[1]
                if clo[0] == "agg" and clo[1].startswith("closure:"):
                    cb = lex.body(norm_path(clo[1][len("closure:"):]))
                    if cb is not None and diverges_after(cb["mir"]["blocks"], 0):
                        ok = True
            elif (c.endswith("Option::expect") or c.endswith("Option::unwrap")) and a and keyed(a[0]):
                n_lookups += 1
                ok = True
            elif "std::ops::Index" in c and len(a) == 2 and keyed(a[1]):
                n_lookups += 1
                ok = True
        gd, _s = guarded_divergences(lex, b)
        for term, bi in gd:
            if keyed(term):
                n_lookups += 1
                ok = True
        site("%s: %s is rejected (the lookup's failure diverges)" % (fn_name, what), key, ok, b["span"],
             {"lookups": n_lookups})
    for fn_name in ("regex_to_nfa::add_re", "regex_to_nfa::regex_to_range_map"):
        failing_lookup(fn_name, "Var", "a variable that is not bound", "unbound:" + fn_name)
    failing_lookup("regex_to_nfa::add_re", "Builtin", "an unknown built-in name", "builtin")
    # 2. duplicate variable: a branch on a lookup / insertion into the bindings map keyed by the
    #    binding's variable leads to a panic (entry -> Occupied, contains_key, get, insert's result)
    MAP_TESTS = ("HashMap::entry", "HashMap::contains_key", "HashMap::get", "HashMap::insert")
    sa = scope_analysis(lex)
    if sa is None or len(sa["roots"]) != 1:
        site("lexer: the bindings maps are identified", "dupvar:anchor", False, None)
    else:
        B = next(iter(sa["roots"]))
        gd, sym_ = guarded_divergences(lex, sa["body"])
        seen_scopes = set()

        def grab(t):
            if isinstance(t, tuple) and len(t) == 4 and t[0] == "call" and \
                    any(t[1].endswith(m) for m in MAP_TESTS) and len(t[3]) >= 2 and \
                    term_has(t[3][1], lambda y: y == ("as", "Binding")):
                in_rs = term_has(t[3][1], lambda y: y == ("as", "RuleSet"))
                seen_scopes.add("rule set" if (t[3][0] != B or in_rs) else "top")
            return False
        for term, bi in gd:
            term_has(term, grab)
        for scope in ("top", "rule set"):
            site("lexer: a variable defined twice %s is rejected (the test of the bindings map for the binding's "
                 "variable has a panicking branch)" % ("at top level" if scope == "top" else "inside a rule set"),
                 "dupvar:" + scope, scope in seen_scopes, sa["body"]["span"], {"guarded panics": len(gd)})
    b = lex.body("lexer")
    if b is not None:
        blocks = b["mir"]["blocks"]
        # 3. rule set defined twice: Map<String,StateIdx>::insert -> is_some -> panic
        ins = [bi for bi, c, t in cfg.calls_in(blocks)
               if c == "std::collections::HashMap::insert" and "std::string::String" in (t.get("res") or "")]
        ok = False
        for bi in ins:
            nxt = blocks[bi]["term"]["t"]
            for _ in range(4):
                if nxt < 0:
                    break
                t2 = blocks[nxt]["term"]
                if t2["k"] == "call" and norm_path(t2.get("resp") or t2["f"].get("path")) == \
                        "std::option::Option::is_some":
                    sw = blocks[t2["t"]]["term"]
                    if sw["k"] == "switch":
                        true_tgt = sw["else"] if sw["arms"] and sw["arms"][0][0] == 0 else None
                        if true_tgt is not None and diverges_after(blocks, true_tgt):
                            ok = True
                    break
                if t2["k"] in ("goto", "drop"):
                    nxt = t2["t"]
                else:
                    break
        site("lexer: a rule set defined twice is rejected", "dupset", bool(ins) and ok, b["span"],
             {"inserts": len(ins)})
        # 4. first rule set not Init: Option<DFA>::as_mut().expect(..)
        exps = [bi for bi, c, t in cfg.calls_in(blocks)
                if c in ("std::option::Option::expect", "std::option::Option::unwrap")
                and "dfa::DFA" in (t.get("res") or "")]
        # ... or `.unwrap_or_else(|| panic!(..))`, or a `match` / `if let` whose `None` arm panics
        locals_b = b["mir"]["locals"]
        for bi, c, t in cfg.calls_in(blocks):
            if c == "std::option::Option::unwrap_or_else" and "dfa::DFA" in (t.get("res") or "") and len(t["args"]) == 2:
                from .rules_thompson import Sym as _Sym
                clo = _Sym(b, {}, crate=lex).operand(t["args"][1])
                if clo[0] == "agg" and str(clo[1]).startswith("closure:"):
                    cb = lex.body(norm_path(clo[1][len("closure:"):]))
                    if cb is not None and diverges_after(cb["mir"]["blocks"], 0):
                        exps.append(bi)
        for bi, bb in enumerate(blocks):
            t = bb["term"]
            if bb["cleanup"] or t["k"] != "switch":
                continue
            d = t["d"].get("move") or t["d"].get("copy")
            if d is None or d["p"]:
                continue
            src = None
            for st in bb["st"]:
                if "lhs" in st and st["lhs"]["l"] == d["l"] and st["rv"]["k"] == "discr":
                    src = st["rv"]["p"]["l"]
            if src is None:
                continue
            ty = str(locals_b[src])
            if ty.startswith("std::option::Option<") and "dfa::DFA" in ty:
                tgts = [tg for _, tg in t["arms"]] + [t["else"]]
                if any(diverges_after(blocks, tg) for tg in tgts):
                    exps.append(bi)
        site("lexer: a first rule set not named Init is rejected (init DFA must exist)", "notinit",
             bool(exps), b["span"], {"sites": len(exps)})
        # 5. error type twice: a panicking branch on a value computed from the `type Error = ..` item
        #    (the slot it is stored in, or Option::replace's result)
        gd, sym_ = guarded_divergences(lex, b)
        hits5 = [bi for term, bi in gd if term_has(term, lambda y: y == ("as", "ErrorType"))]
        site("lexer: a second `type Error` is rejected", "errtwice", bool(hits5), b["span"])
        # 6. named && unnamed: a panicking branch that depends on having seen both kinds of top-level
        #    item. Recognised forms: two flags set in the arms of a match over the items; two
        #    `any(..)` scans whose closures test the item kind.
        ok6 = False
        names = b["mir"].get("names", {})
        for term, bi in gd:
            # (a) `iter().any(|r| matches!(r, Rule::RuleSet{..}))`-style
            if term_has(term, lambda y: isinstance(y, tuple) and len(y) == 4 and y[0] == "call"
                        and re.search(r"Iterator>?::any$", y[1])):
                ok6 = True
        if not ok6:
            # (b) boolean flags assigned `true` in the arms of a match over the top-level items
            flag_locals = set()
            for bi2, bb in enumerate(blocks):
                for st in bb["st"]:
                    rv = st.get("rv")
                    if rv and rv["k"] == "use" and rv["o"].get("int") == 1 and rv["o"].get("ty") == "bool" \
                            and "lhs" in st and not st["lhs"]["p"]:
                        flag_locals.add(st["lhs"]["l"])
            for bi2, bb in enumerate(blocks):
                t = bb["term"]
                if t["k"] == "switch":
                    d = t["d"].get("move") or t["d"].get("copy")
                    if d is not None and not d["p"]:
                        src = d["l"]
                        for st in bb["st"]:
                            if "lhs" in st and st["lhs"]["l"] == d["l"] and st["rv"]["k"] == "use":
                                q = st["rv"]["o"].get("copy") or st["rv"]["o"].get("move")
                                if q is not None:
                                    src = q["l"]
                        if src in flag_locals and names.get(str(src)) and diverges_after(blocks, t["else"]):
                            ok6 = True
        site("lexer: mixing named and unnamed rules is rejected", "mixed", ok6, b["span"])
        # 7. parser error is turned into a compile error and returned
        tce = [bi for bi, c, t in cfg.calls_in(blocks) if c == "syn::Error::to_compile_error"]
        site("lexer: a syntax error from the parser becomes a compile error", "parse-error",
             bool(tce), b["span"], {"sites": len(tce)})
    # 9. operands of `#` that are not classes are rejected: R-CLASS's per-variant obligations
    #    (rules_thompson.check_rclassdispatch: the arm panics, or returns an error value on which add_re
    #    panics), replayed here under R-CHK
    from .report import Ctx as _Ctx
    from .rules_thompson import check_rclassdispatch
    tmp = _Ctx("tmp")
    check_rclassdispatch(tmp, prog)
    for rule, desc, ok in tmp.obligations:
        if "rejected" in desc:
            vn = desc.split(" ")[0]
            site("`#` operand: " + desc, "diff:" + vn, ok, None)
    ctx.floor("R-CHK rejection sites", n, 14)


# ------------------------------------------------------------------------------------ R-FLOW / R-ORDER
NFA_ACCESSOR_RE = re.compile(r"^nfa::NFA::(char_transitions|range_transitions|any_transitions|"
                             r"end_of_input_transitions|get_accepting_state)$")


def closure_accessor_tags(lex, cdef, depth=0):
    out = set()
    cb = lex.body(norm_path(cdef))
    if cb is None or depth > 3:
        return out
    for bb in cb["mir"]["blocks"]:
        if bb["cleanup"]:
            continue
        for st in bb["st"]:
            rv = st.get("rv")
            if rv and rv["k"] == "agg" and rv["kind"].get("agg") == "closure":
                out |= closure_accessor_tags(lex, rv["kind"]["def"], depth + 1)
        t = bb["term"]
        if t["k"] == "call":
            m = NFA_ACCESSOR_RE.match(norm_path(t.get("resp") or t["f"].get("path")) or "")
            if m:
                out.add(m.group(1))
    return out


def check_rflow(ctx, prog):
    """Flow-insensitive value dependence inside nfa_to_dfa from NFA accessor results to DFA builder
    arguments (must-flow only)."""
    lex = prog.crate(LEX)
    b = lex.body("nfa_to_dfa::nfa_to_dfa")
    if not ctx.ob("R-FLOW", "nfa_to_dfa found", b is not None, key="R-FLOW:anchor"):
        return
    blocks = b["mir"]["blocks"]
    nloc = len(b["mir"]["locals"])
    # dependency graph between locals: dst <- srcs
    deps = {i: set() for i in range(nloc)}
    src_tag = {}       # local -> set of accessor tags
    sinks = []         # (builder, arg locals)

    def places_of_op(o):
        pl = o.get("copy") or o.get("move")
        return [pl["l"]] if pl is not None else []

    REG = re.compile(r"^&mut dfa::DFA<|^&mut std::collections::(HashMap|BTreeMap)<std::collections::BTreeSet")
    for bi, bb in enumerate(blocks):
        if bb["cleanup"]:
            continue
        for st in bb["st"]:
            if "lhs" not in st:
                continue
            d = st["lhs"]["l"]
            rv = st["rv"]
            srcs = []
            if "p" in rv and isinstance(rv["p"], dict):
                srcs.append(rv["p"]["l"])
            for k in ("o", "a", "b"):
                if k in rv and isinstance(rv[k], dict):
                    srcs += places_of_op(rv[k])
            for o in rv.get("ops", []):
                srcs += places_of_op(o)
            deps[d].update(srcs)
            # a closure value carries what its body reads from the NFA (e.g. `.filter_map(|s|
            # nfa.get_accepting_state(*s))`)
            if rv["k"] == "agg" and rv["kind"].get("agg") == "closure":
                src_tag.setdefault(d, set()).update(closure_accessor_tags(lex, rv["kind"]["def"]))
        t = bb["term"]
        if t["k"] == "call":
            callee = norm_path(t.get("resp") or t["f"].get("path")) or ""
            d = t["dest"]["l"]
            args = []
            for a in t["args"]:
                args += places_of_op(a)
            m = re.match(r"^nfa::NFA::(char_transitions|range_transitions|any_transitions|"
                         r"end_of_input_transitions|get_accepting_state)$", callee)
            if m:
                src_tag.setdefault(d, set()).add(m.group(1))
            m2 = re.match(r"^dfa::DFA::(add_char_transition|set_range_transitions|set_any_transition|"
                          r"set_end_of_input_transition|make_state_accepting)$", callee)
            if m2:
                sinks.append((m2.group(1), args, bi))
            # result depends on args, except registries; &mut args (collections) absorb the other args
            ty_args = [(a, b["mir"]["locals"][a]) for a in args]
            flow_args = [a for a, ty in ty_args if not REG.match(ty)]
            deps[d].update(flow_args)
            for a, ty in ty_args:
                if ty.startswith("&mut ") and not REG.match(ty):
                    deps[a].update(x for x in flow_args if x != a)
    # references: `_a = &mut _b` makes writes through _a visible in _b: add reverse edge for &mut refs
    for bi, bb in enumerate(blocks):
        for st in bb["st"]:
            rv = st.get("rv")
            if rv and rv["k"] == "ref" and rv.get("mut") and "lhs" in st:
                deps[rv["p"]["l"]].add(st["lhs"]["l"])

    def tags_of(l):
        seen = set()
        work = [l]
        out = set()
        while work:
            x = work.pop()
            if x in seen:
                continue
            seen.add(x)
            out |= src_tag.get(x, set())
            work.extend(deps.get(x, ()))
        return out

    need = {
        "add_char_transition": {"char_transitions", "range_transitions", "any_transitions"},
        "set_range_transitions": {"range_transitions", "any_transitions"},
        "set_any_transition": {"any_transitions"},
        "set_end_of_input_transition": {"end_of_input_transitions"},
        "make_state_accepting": {"get_accepting_state"},
    }
    seen_sinks = set()
    for name, args, bi in sinks:
        seen_sinks.add(name)
        # the state argument(s): all args except the &mut DFA receiver
        got = set()
        for a in args[1:]:
            got |= tags_of(a)
        missing = sorted(need[name] - got)
        ctx.ob("R-FLOW", "target of DFA::%s depends on NFA %s" % (name, sorted(need[name])),
               not missing, key="R-FLOW:%s" % name, where=blocks[bi].get("span"),
               detail={"depends on": sorted(got), "missing": missing,
                       "meaning": "a DFA transition on a character must collect the NFA targets of "
                                  "every transition kind that can fire on it (char, covering ranges, "
                                  "`_`)"})
    for name in need:
        ctx.ob("R-FLOW", "nfa_to_dfa calls DFA::%s" % name, name in seen_sinks,
               key="R-FLOW:anchor:%s" % name)
    # closure: every builder target goes through compute_state_closure
    ncl = len([1 for _, c, _ in cfg.calls_in(blocks) if c == "nfa::NFA::compute_state_closure"])
    # (that each single target set is closed is R-SUBSET's per-site obligation; this only guards
    # against the closure having moved out of the function altogether)
    ctx.floor("epsilon-closure calls in nfa_to_dfa", ncl, 1)


def check_rorder(ctx, prog):
    lex = prog.crate(LEX)
    b = lex.body("nfa_to_dfa::nfa_to_dfa")
    if not ctx.ob("R-ORDER", "nfa_to_dfa found", b is not None, key="R-ORDER:anchor"):
        return
    blocks = b["mir"]["blocks"]
    # the sets of NFA states that are popped and whose members feed make_state_accepting are ordered:
    # rule priority = order of accepting states in DFA::accepting = iteration order of the set
    ok = False
    for bi, callee, t in cfg.calls_in(blocks):
        if callee == "std::vec::Vec::pop":
            ty = b["mir"]["locals"][t["dest"]["l"]]
            if "std::collections::BTreeSet<nfa::StateIdx>" in ty:
                ok = True
            m = re.match(r"^std::option::Option<([\w:]+)(<.*>)?>$", ty)
            adt = lex.adt(m.group(1)) if m else None
            if adt is not None and any("std::collections::BTreeSet<nfa::StateIdx>" in f["ty"]
                                       for v in adt["variants"] for f in v["fields"]) and \
                    not any("HashSet<nfa::StateIdx" in f["ty"] for v in adt["variants"] for f in v["fields"]):
                ok = True      # a work item struct that carries the ordered set
    ctx.ob("R-ORDER", "the sets of NFA states taken from the work list are ordered sets (BTreeSet)",
           ok, key="R-ORDER:btree", where=b["span"],
           detail="rule priority = order of accepting states in DFA::accepting; iterating a hash set "
                  "would make it depend on hash order")
    # work list elements and state_map keys are BTreeSets
    tys = b["mir"]["locals"]
    ctx.ob("R-ORDER", "DFA states are keyed by ordered sets of NFA states",
           any(re.match(r"std::collections::(HashMap|BTreeMap)<std::collections::BTreeSet<nfa::StateIdx>", t) for t in tys),
           key="R-ORDER:keys", where=b["span"])
    # (that a rule's accepting state is a fresh state of its own add_regex call - hence numbered in
    # rule order - is R-THOMPSON's add_regex obligation)


# ------------------------------------------------------------------------------------ sibling rules on index arithmetic
def local_named(body, name):
    return [int(k) for k, v in body["mir"].get("names", {}).items() if v == name]


def trace_copy(blocks, local, depth=6):
    """Follow `_a = copy/move _b` chains (any block) to the first local that is not a plain copy."""
    for _ in range(depth):
        src = None
        n = 0
        for bb in blocks:
            for st in bb["st"]:
                if "lhs" in st and st["lhs"]["l"] == local and not st["lhs"]["p"]:
                    n += 1
                    rv = st["rv"]
                    if rv["k"] == "use":
                        q = rv["o"].get("copy") or rv["o"].get("move")
                        if q is not None and not q["p"]:
                            src = q["l"]
        if src is None or n != 1:
            return local
        local = src
    return local


PASS_THROUGH_CALLS = ("std::ops::Deref>::deref", "::as_slice", "std::convert::AsRef", "::as_ref")


def origin_chain(blocks, local, depth=8):
    """Locals (and ("env", field) for closure captures) that `local` is a copy, borrow, reborrow or
    deref of, following single definitions and slice/deref pass-through calls."""
    chain = [local]
    for _ in range(depth):
        defs = []
        for bb in blocks:
            for st in bb["st"]:
                if "lhs" in st and st["lhs"]["l"] == local and not st["lhs"]["p"]:
                    defs.append(("st", st["rv"]))
            t = bb["term"]
            if t["k"] == "call" and t["dest"]["l"] == local and not t["dest"]["p"]:
                defs.append(("call", t))
        if len(defs) != 1:
            break
        kind, d = defs[0]
        nxt = None
        if kind == "st":
            pl = None
            if d["k"] == "use":
                pl = d["o"].get("copy") or d["o"].get("move")
            elif d["k"] == "ref":
                pl = d["p"]
            if pl is None:
                break
            proj = [e for e in pl["p"] if e != "*"]
            if pl["l"] == 1 and proj:
                chain.append(("env", repr(proj)))
                break
            if proj:
                break
            nxt = pl["l"]
        else:
            c = norm_path(d.get("resp") or d["f"].get("path")) or ""
            if any(x in c for x in PASS_THROUGH_CALLS) and d["args"]:
                q = d["args"][0].get("copy") or d["args"][0].get("move")
                if q is not None and not q["p"]:
                    nxt = q["l"]
        if nxt is None:
            break
        chain.append(nxt)
        local = nxt
    return chain


def check_roffset(ctx, prog):
    """DFA::add_dfa shifts every index of the appended automaton (four successor kinds and the
    predecessor sets) by the same amount: the number of states before the append."""
    lex = prog.crate(LEX)
    b = lex.body("dfa::DFA::add_dfa")
    if not ctx.ob("R-OFFSET", "DFA::add_dfa found", b is not None, key="R-OFFSET:anchor"):
        return
    blocks = b["mir"]["blocks"]
    n_loc = local_named(b, "n_current_states")
    ok_n = False
    if len(n_loc) == 1:
        for bi, callee, t in cfg.calls_in(blocks):
            if callee == "std::vec::Vec::len" and t["dest"]["l"] == n_loc[0] and not t["dest"]["p"]:
                ok_n = True
    ctx.ob("R-OFFSET", "the offset is the number of states before the append (Vec::len of self.states)",
           ok_n, key="R-OFFSET:len", where=b["span"])
    if not n_loc:
        return
    N = n_loc[0]
    adds = []
    for bi, bb in enumerate(blocks):
        if bb["cleanup"]:
            continue
        for st in bb["st"]:
            rv = st.get("rv")
            if rv and rv["k"] == "bin" and rv["op"] in ("Add", "AddWithOverflow"):
                ops = []
                for o in (rv["a"], rv["b"]):
                    q = o.get("copy") or o.get("move")
                    ops.append(trace_copy(blocks, q["l"]) if q is not None and not q["p"] else None)
                adds.append((bi, ops))
    for bi, ops in adds:
        ctx.ob("R-OFFSET", "add_dfa: index shifted by n_current_states", N in ops,
               key="R-OFFSET:body-add", where=blocks[bi].get("span"), detail=ops)
    # closures (range transitions, predecessors): the addend is the captured n_current_states
    clos = [x for x in lex.by_norm if x.startswith("dfa::DFA::add_dfa::{closure")]
    captured_ok = 0
    for bi, bb in enumerate(blocks):
        for st in bb["st"]:
            rv = st.get("rv")
            if rv and rv["k"] == "agg" and rv["kind"].get("agg") == "closure":
                caps = []
                for o in rv["ops"]:
                    q = o.get("copy") or o.get("move")
                    if q is not None and not q["p"]:
                        # captured by reference: `_x = &_N`
                        src = ref_chain_target(blocks, bi, q["l"])
                        caps.append(src if src is not None else trace_copy(blocks, q["l"]))
                ok = caps == [N]
                captured_ok += 1 if ok else 0
                ctx.ob("R-OFFSET", "add_dfa: closure %s captures exactly n_current_states" %
                       rv["kind"]["def"].rsplit("::", 1)[-1], ok, key="R-OFFSET:closure-capture",
                       where=bb.get("span"), detail=caps)
    n_cl_adds = 0
    for cn in clos:
        cb = lex.body(cn)
        for bb in cb["mir"]["blocks"]:
            for st in bb["st"]:
                rv = st.get("rv")
                if rv and rv["k"] == "bin" and rv["op"] in ("Add", "AddWithOverflow"):
                    n_cl_adds += 1
                    def via_env(o, cb=cb):
                        q = o.get("copy") or o.get("move")
                        if q is None or q["p"]:
                            return False
                        ch = origin_chain(cb["mir"]["blocks"], q["l"])
                        return any(isinstance(x, tuple) and x[0] == "env" for x in ch)
                    ctx.ob("R-OFFSET", "add_dfa closure: index shifted by the captured offset",
                           via_env(rv["a"]) or via_env(rv["b"]), key="R-OFFSET:closure-add",
                           where=bb.get("span"))
    ctx.floor("index shifts in DFA::add_dfa (char, any, end-of-input in the body; ranges and "
              "predecessors in closures)", len(adds) + n_cl_adds, 5)
    # returned entry index = the offset
    ret_ok = False
    for bb in blocks:
        for st in bb["st"]:
            rv = st.get("rv")
            if rv and rv["k"] == "agg" and rv["kind"].get("adt") == "dfa::StateIdx" and \
                    "lhs" in st and st["lhs"]["l"] == 0:
                q = rv["ops"][0].get("copy") or rv["ops"][0].get("move")
                if q is not None and trace_copy(blocks, q["l"]) == N:
                    ret_ok = True
    ctx.ob("R-OFFSET", "add_dfa returns StateIdx(n_current_states) as the appended rule set's entry",
           ret_ok, key="R-OFFSET:return", where=b["span"])


def check_rshift(ctx, prog):
    """simplify renumbers rule-set entry states and transition targets with the same search over the
    same list of removed states, and removes exactly the non-initial states without transitions."""
    lex = prog.crate(LEX)
    b = lex.body("dfa::simplify::simplify")
    if not ctx.ob("R-SHIFT", "simplify found", b is not None, key="R-SHIFT:anchor"):
        return
    blocks = b["mir"]["blocks"]
    loops, dom, preds = cfg.natural_loops(blocks)
    es = local_named(b, "empty_states")
    if not ctx.ob("R-SHIFT", "list of removed states (`empty_states`) found", len(es) == 1,
                  key="R-SHIFT:list", where=b["span"]):
        return
    ES = es[0]
    # (1) pushes to empty_states are guarded by has_no_transitions() == true and initial == false
    hn = [bi for bi, c, t in cfg.calls_in(blocks) if c == "dfa::State::has_no_transitions"]
    pushes = [bi for bi, c, t in cfg.calls_in(blocks)
              if c == "std::vec::Vec::push" and local_of_mut_ref(blocks, bi, t["args"][0]) == ES]
    ok1 = bool(hn) and bool(pushes)
    for pb in pushes:
        ok1 = ok1 and any(true_edge_dominates(blocks, dom, h, pb) for h in hn)
        # `!state.initial`: a switch on a copy of the `initial` field whose false edge dominates
        init_ok = False
        for bi, bb in enumerate(blocks):
            t = bb["term"]
            if t["k"] == "switch" and len(t["arms"]) == 1 and t["arms"][0][0] == 0:
                d = t["d"].get("move") or t["d"].get("copy")
                if d is None:
                    continue
                reads_initial = False
                for st in bb["st"]:
                    rv = st.get("rv")
                    if rv and "lhs" in st and st["lhs"]["l"] == d["l"]:
                        txt = repr(rv)
                        if "State.initial" in txt:
                            reads_initial = True
                if reads_initial and t["arms"][0][1] in dom.get(pb, ()):
                    init_ok = True
        ok1 = ok1 and init_ok
    ctx.ob("R-SHIFT", "a state is removed only if it has no transitions and is not a rule set's "
           "initial state", ok1, key="R-SHIFT:removal", where=b["span"],
           detail="initial states are kept even when empty (empty rule sets): counting them as "
                  "removed shifts every later entry index")
    # (2) entry renumbering: a binary search over empty_states inside the loop over the entry map
    def searches(body):
        out = []
        bl = body["mir"]["blocks"]
        for bi, c, t in cfg.calls_in(bl):
            if c and c.endswith("binary_search_by"):
                out.append(bi)
        return out
    body_searches = searches(b)
    entry_loops = []
    for h, m in loops.items():
        for bi, c, t in cfg.calls_in(blocks):
            if bi in m and c and re.search(r"hash_map::(IterMut|ValuesMut).*Iterator>::next$", c):
                entry_loops.append(m)
    if not ctx.ob("R-SHIFT", "loop over the rule-set entry map (iter_mut/values_mut) found in simplify",
                  bool(entry_loops), key="R-SHIFT:entry-loop", where=b["span"]):
        return
    consult = []
    for m in entry_loops:
        for bi, c, t in cfg.calls_in(blocks):
            if bi in m and t["args"]:
                a0 = t["args"][0].get("move") or t["args"][0].get("copy")
                if a0 is not None and not a0["p"] and ES in origin_chain(blocks, a0["l"]):
                    consult.append((bi, c))
    ctx.ob("R-SHIFT", "rule-set entry indices are renumbered from the list of removed states "
           "(`empty_states` is consulted inside the loop over the entry map)", bool(consult),
           key="R-SHIFT:entries", where=b["span"],
           detail={"calls on empty_states in the loop": [c for _, c in consult]})
    in_loop = [bi for bi in body_searches if any(bi in m for m in entry_loops)]
    # (3) transitions: the map_transition closure searches too and subtracts the found index
    mt = [x for x in lex.by_norm if x.startswith("dfa::simplify::simplify::{closure")]
    with_search = [x for x in mt if searches(lex.body(x))]
    ctx.ob("R-SHIFT", "transition targets are renumbered by the same kind of search (map_transition)",
           len(with_search) >= 1, key="R-SHIFT:transitions", where=b["span"], detail=with_search)
    # the closure that renumbers transitions captures the same list
    cap_ok = False
    for bi, bb in enumerate(blocks):
        for st in bb["st"]:
            rv = st.get("rv")
            if rv and rv["k"] == "agg" and rv["kind"].get("agg") == "closure" and \
                    norm_path(rv["kind"]["def"]) in with_search:
                for o in rv["ops"]:
                    q = o.get("copy") or o.get("move")
                    if q is not None and not q["p"] and ES in origin_chain(blocks, q["l"]):
                        cap_ok = True
    ctx.ob("R-SHIFT", "map_transition searches the same list (`empty_states` is what it captures)",
           cap_ok, key="R-SHIFT:transitions-list", where=b["span"])
    # the amount subtracted from an entry index is the position found by the search
    amt_ok = False
    for bi in in_loop:
        res = blocks[bi]["term"]["dest"]["l"]
        for bj, bb in enumerate(blocks):
            for st in bb["st"]:
                rv = st.get("rv")
                if rv and rv["k"] == "agg" and rv["kind"].get("agg") == "closure":
                    for o in rv["ops"]:
                        q = o.get("copy") or o.get("move")
                        if q is None or q["p"]:
                            continue
                        ch = origin_chain(blocks, q["l"])
                        # idx = match search { Ok(i) | Err(i) => i }: the last local of the chain is
                        # assigned from both variants of the search result
                        last = ch[-1]
                        srcs = set()
                        for bb2 in blocks:
                            for st2 in bb2["st"]:
                                if "lhs" in st2 and st2["lhs"]["l"] == last and st2["rv"]["k"] == "use":
                                    pl = st2["rv"]["o"].get("copy") or st2["rv"]["o"].get("move")
                                    if pl is not None and pl["l"] == res and pl["p"]:
                                        srcs.add(repr(pl["p"][0]))
                        if len(srcs) == 2:
                            amt_ok = True
    if in_loop:
        ctx.ob("R-SHIFT", "an entry index is lowered by the position the binary search returns (Ok and "
               "Err alike)", amt_ok, key="R-SHIFT:entries-amount", where=b["span"])
    else:
        ctx.notes.append("R-SHIFT: entry renumbering does not use a binary search; the Ok/Err "
                         "agreement obligation does not apply")
    subs = 0
    for x in mt:
        for bb in lex.body(x)["mir"]["blocks"]:
            for st in bb["st"]:
                rv = st.get("rv")
                if rv and rv["k"] == "bin" and rv["op"] in ("Sub", "SubWithOverflow"):
                    subs += 1
    ctx.floor("index subtractions in simplify's closures (entries, transitions)", subs, 2)


def check_rinline(ctx, prog):
    """Every place in codegen that decides 'this state is inlined into its single predecessor' uses
    the same condition: `predecessors.len() == 1` (plus `!initial` where arms are emitted). A site is
    a branch whose tested value is, as a def-use term, `len(<state>.predecessors) == 1` - wherever
    the comparison itself was written (in place, in a helper, in a closure)."""
    from .rules_thompson import Sym
    from .inline import is_anchor
    lex = prog.crate(LEX)
    sites = []
    st_adt = lex.adt("dfa::State")
    pred_idx = None
    if st_adt:
        fields = [f["name"] for f in st_adt["variants"][0]["fields"]]
        pred_idx = fields.index("predecessors") if "predecessors" in fields else None
    if not ctx.ob("R-INLINE", "dfa::State has a `predecessors` field", pred_idx is not None,
                  key="R-INLINE:anchor"):
        return

    def is_test(t):
        if not (isinstance(t, tuple) and len(t) == 4 and t[0] == "bin" and t[1] == "Eq"):
            return False
        sides = [t[2], t[3]]
        one = [x for x in sides if x == ("const", 1)]
        ln = [x for x in sides if isinstance(x, tuple) and len(x) == 4 and x[0] == "call"
              and x[1].endswith("HashSet::len")]
        if not (one and ln):
            return False
        recv = ln[0][3][0]
        return term_has(recv, lambda y: isinstance(y, tuple) and len(y) == 3 and y[0] == "path"
                        and y[2] and y[2][-1] == ("f", pred_idx))
    for b in lex.ibodies():
        name = norm_path(b["path"])
        if not name.startswith("dfa::codegen") or not is_anchor(name):
            continue            # helpers are analysed where they are inlined
        blocks = b["mir"]["blocks"]
        sym = Sym(b, {}, crate=lex)
        for bi, bb in enumerate(blocks):
            if bb["cleanup"] or bb["term"]["k"] != "switch":
                continue
            sw = bb["term"]
            t = sym.operand(sw["d"])
            alts = list(t[1]) if t[0] == "phi" else [t]
            if not any(is_test(x) for x in alts):
                continue
            if len(alts) != 1:
                sites.append((name, bi, "the tested value is not only `predecessors.len() == 1`", None))
                continue
            true_tgt = sw["else"] if sw["arms"] and sw["arms"][0][0] == 0 else None
            sites.append((name, bi, "ok", extra_conditions(blocks, true_tgt)))
    for name, bi, status, extra in sites:
        allowed_extra = {"initial"} if name == "dfa::codegen::generate_state_arms" else set()
        ok = status == "ok" and set(extra or ()) <= allowed_extra
        ctx.ob("R-INLINE", "%s decides inlining by `predecessors.len() == 1`%s only" % (
            name, " and `!initial`" if allowed_extra else ""), ok,
            key="R-INLINE:%s" % name, detail={"status": status, "extra conditions": sorted(extra or ())},
            where="bb%d" % bi)
    ctx.floor("sites deciding whether a state is inlined", len(sites), 5)


def extra_conditions(blocks, start, limit=6):
    """Kinds of further tests reached from `start` before the first call or return: names of boolean
    fields read / callee names whose result is switched on."""
    out = set()
    seen = set()
    work = [(start, 0)]
    while work:
        b, d = work.pop()
        if b is None or b in seen or d > limit:
            continue
        seen.add(b)
        bb = blocks[b]
        t = bb["term"]
        if t["k"] == "switch":
            dl = t["d"].get("move") or t["d"].get("copy")
            label = "?"
            if dl is not None:
                for st in bb["st"]:
                    if "lhs" in st and st["lhs"]["l"] == dl["l"]:
                        txt = repr(st["rv"])
                        m = re.search(r"State\.(\w+)", txt)
                        label = m.group(1) if m else ("discr" if st["rv"]["k"] == "discr" else "?")
                # result of a call in a predecessor block
                for bb2 in blocks:
                    t2 = bb2["term"]
                    if t2["k"] == "call" and t2["dest"]["l"] == dl["l"] and not t2["dest"]["p"] and t2["t"] == b:
                        label = norm_path(t2.get("resp") or t2["f"].get("path")) or "?"
            if label != "discr":
                out.add(label)
            for _, tg in t["arms"]:
                work.append((tg, d + 1))
            work.append((t["else"], d + 1))
        elif t["k"] == "goto":
            work.append((t["t"], d))
        elif t["k"] == "call":
            c = norm_path(t.get("resp") or t["f"].get("path")) or ""
            if c.endswith("::contains_key") or c.endswith("::contains") or c.endswith("::is_empty") \
                    or c.endswith("::get") or c.endswith("::len") or "Index>::index" in c \
                    or "Deref>::deref" in c or "PartialEq" in c:
                work.append((t["t"], d + 1))
        elif t["k"] == "assert":
            work.append((t["t"], d))
        # other calls / returns end the search
    return out
