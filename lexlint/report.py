"""Obligations, violations, known findings and evidence files."""
import hashlib
import json
import os
import re
import time

from .facts import VERIF

KNOWN = os.path.join(VERIF, "known_findings.jsonl")
EVID = os.environ.get("VERIF_EVIDENCE_DIR") or os.path.join(VERIF, "evidence")


def load_known():
    out = []
    if os.path.exists(KNOWN):
        with open(KNOWN) as f:
            for line in f:
                line = line.strip()
                if line.startswith("{"):
                    out.append(json.loads(line))
    return out


def jsonable(v, depth=0):
    if isinstance(v, (str, int, float, bool)) or v is None:
        return v
    if isinstance(v, dict):
        return {str(k): jsonable(x, depth + 1) for k, x in v.items()}
    if isinstance(v, (list, tuple, set, frozenset)):
        return [jsonable(x, depth + 1) for x in v]
    return repr(v)


class Ctx(object):
    """Collects what one property check analysed and what it found."""

    def __init__(self, prop, tier="quick", seed=0):
        self.prop = prop
        self.tier = tier
        self.seed = seed
        self.t0 = time.time()
        self.obligations = []      # (rule, description, ok)
        self.violations = []       # dicts
        self.counts = {}
        self.samples = []
        self.floors = []           # (name, measured, floor)
        self.notes = []
        self.assumptions = []

    # -- recording
    def count(self, name, n=1):
        self.counts[name] = self.counts.get(name, 0) + n

    def sample(self, s, limit=12):
        if len(self.samples) < limit:
            self.samples.append(jsonable(s))

    def ob(self, rule, desc, ok, key=None, where=None, detail=None):
        """Record one obligation; a failed one is a violation keyed by `key` (no line numbers)."""
        self.obligations.append((rule, desc, bool(ok)))
        if not ok:
            self.violation(rule, key or (rule + ":" + desc), desc, where, detail)
        return ok

    def violation(self, rule, key, msg, where=None, detail=None):
        for v in self.violations:
            if v["key"] == key:
                v["more"] = v.get("more", 0) + 1
                return
        self.violations.append({"rule": rule, "key": key, "message": msg, "where": where,
                                "detail": jsonable(detail)})

    def floor(self, name, measured, floor):
        """Non-vacuity: fewer instances than were confirmed by hand is a failure of the check."""
        self.floors.append((name, measured, floor))
        self.ob("FLOOR", "%s: analysed %d, floor %d" % (name, measured, floor), measured >= floor,
                key="FLOOR:" + name,
                detail="a rule that matches fewer instances than counted on the reference tree "
                       "would pass vacuously; the anchor moved or disappeared")

    # -- finishing
    def finish(self, level, coverage, assumptions=None):
        known = [k for k in load_known()
                 if k.get("property") == self.prop and k.get("status") == "open"]
        known_keys = {k["key"]: k for k in known}
        new = []
        lines = []
        for v in self.violations:
            if v["key"] in known_keys:
                lines.append("KNOWN-FINDING: property=%s %s [%s]" % (
                    self.prop, known_keys[v["key"]].get("what", v["message"]), v["key"]))
            else:
                new.append(v)
        os.makedirs(os.path.join(EVID, "violations"), exist_ok=True)
        for v in new:
            h = hashlib.sha256(v["key"].encode()).hexdigest()[:10]
            slug = re.sub(r"[^A-Za-z0-9_.-]+", "_", v["key"])[:60]
            path = os.path.join(EVID, "violations", "%s-%s-%s.json" % (self.prop, slug, h))
            with open(path, "w") as f:
                json.dump({"property": self.prop, "repo": os.environ.get("VERIF_REPO", "/repo"),
                           **v}, f, indent=1)
            where = (" at %s" % v["where"]) if v.get("where") else ""
            lines.append("  [%s] %s%s" % (v["rule"], v["message"], where))
            lines.append("VIOLATION property=%s replay=%s" % (self.prop, path))
        cov = dict(coverage)
        n_ob = len(self.obligations)
        n_ok = sum(1 for o in self.obligations if o[2])
        cov.setdefault("obligations", n_ob)
        cov.setdefault("discharged", n_ok)
        cov.setdefault("counts", self.counts)
        cov.setdefault("floors", [{"what": a, "measured": b, "floor": c} for a, b, c in self.floors])
        cov.setdefault("samples", self.samples or ["(none)"])
        by_rule = {}
        for r, d, ok in self.obligations:
            e = by_rule.setdefault(r, [0, 0])
            e[0] += 1
            e[1] += 1 if ok else 0
        cov.setdefault("obligations_by_rule", {r: {"total": a, "discharged": b}
                                               for r, (a, b) in sorted(by_rule.items())})
        if self.notes:
            cov.setdefault("notes", self.notes)
        ev = {
            "property_id": self.prop,
            "tier": self.tier,
            "seed": self.seed,
            "level": level,
            "coverage": jsonable(cov),
            "assumptions": list(assumptions or []) + self.assumptions,
            "wall_s": round(time.time() - self.t0, 2),
            "violations": len(new),
            "known_findings": [k["key"] for k in known if any(v["key"] == k["key"]
                                                             for v in self.violations)],
        }
        os.makedirs(EVID, exist_ok=True)
        tmp = os.path.join(EVID, "%s.json.tmp%d" % (self.prop, os.getpid()))
        with open(tmp, "w") as f:
            json.dump(ev, f, indent=1)
        os.replace(tmp, os.path.join(EVID, "%s.json" % self.prop))
        for l in lines:
            print(l)
        print("%s %s: %d obligations, %d discharged, %d violation(s), %d known finding(s), %.1fs" % (
            self.prop, self.tier, n_ob, n_ok, len(new), len(self.violations) - len(new),
            time.time() - self.t0))
        return 1 if new else 0
