"""Exact sets of Unicode scalar values as sorted tuples of inclusive (lo, hi) intervals."""

MAXC = 0x10FFFF
SUR_LO, SUR_HI = 0xD800, 0xDFFF
FULL = ((0, SUR_LO - 1), (SUR_HI + 1, MAXC))
EMPTY = ()


def norm(iv):
    """Sort, drop empty, merge overlapping/adjacent. Result is canonical."""
    iv = sorted((a, b) for a, b in iv if a <= b)
    out = []
    for a, b in iv:
        if out and a <= out[-1][1] + 1:
            if b > out[-1][1]:
                out[-1] = (out[-1][0], b)
        else:
            out.append((a, b))
    return tuple(out)


def scalar(iv):
    """Canonical form restricted to scalar values (surrogates removed)."""
    return inter(norm(iv), FULL)


def inter(x, y):
    out = []
    i = j = 0
    while i < len(x) and j < len(y):
        lo = max(x[i][0], y[j][0])
        hi = min(x[i][1], y[j][1])
        if lo <= hi:
            out.append((lo, hi))
        if x[i][1] < y[j][1]:
            i += 1
        else:
            j += 1
    return tuple(out)


def union(x, y):
    return norm(list(x) + list(y))


def minus(x, y):
    out = []
    j = 0
    for a, b in x:
        cur = a
        while j < len(y) and y[j][1] < cur:
            j += 1
        k = j
        while k < len(y) and y[k][0] <= b:
            c, d = y[k]
            if c > cur:
                out.append((cur, c - 1))
            cur = max(cur, d + 1)
            if cur > b:
                break
            k += 1
        if cur <= b:
            out.append((cur, b))
    return tuple(out)


def is_subset(x, y):
    return not minus(x, y)


def size(x):
    return sum(b - a + 1 for a, b in x)


def contains(x, c):
    for a, b in x:
        if a <= c <= b:
            return True
    return False


def pick(x):
    """A representative element (prefers a printable ASCII one)."""
    for a, b in x:
        for c in range(max(a, 33), min(b, 126) + 1):
            return c
    return x[0][0] if x else None


def show_cp(c):
    if 32 < c < 127 and chr(c) not in "'\\":
        return "'%s'" % chr(c)
    return "U+%04X" % c


def show(x, limit=8):
    parts = []
    for a, b in x[:limit]:
        parts.append(show_cp(a) if a == b else "%s-%s" % (show_cp(a), show_cp(b)))
    if len(x) > limit:
        parts.append("...(%d ranges)" % len(x))
    return "{" + ",".join(parts) + "}"


def scalar_pairs_ok(pairs):
    """Every end point is a scalar value."""
    for a, b in pairs:
        for v in (a, b):
            if v > MAXC or SUR_LO <= v <= SUR_HI:
                return False
    return True
