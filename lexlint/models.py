"""Call models shared by all analyses: the std/core callees that occur in the analysed regions.

Each entry was enumerated from the fact base and confirmed by reading the callee's documentation;
one line of reason each. A callee not listed here is interpreted from its own MIR when its body is
in the program (same workspace), and is otherwise an opaque, possibly-mutating call that clients
treat as "cannot establish".
"""
import re

from . import ivl
from .segx import Cut

# name -> reason it is a pure function of its arguments (result is the term pure(name, args))
PURE = {
    "std::char::methods::<impl char>::len_utf8": "total function of the char",
    "<char as unicode_width::UnicodeWidthChar>::width": "table lookup on the char",
    "std::option::Option::unwrap_or": "returns payload or default",
    "std::option::Option::copied": "copies the payload",
    "std::iter::Peekable::peek": "looks at the next item without consuming it (semantically)",
    "core::str::<impl str>::chars": "iterator over the string's chars",
    "std::iter::Iterator::peekable": "wraps an iterator",
    "<std::str::Chars as std::iter::Iterator>::peekable": "wraps an iterator",
    "std::default::Default::default": "user state default",
    "core::str::traits::<impl std::ops::Index for str>::index": "str slice (may panic: R-PANIC)",
    "std::cmp::Ord::cmp": "total order comparison",
    "std::cmp::impls::<impl std::cmp::Ord for char>::cmp": "total order comparison",
    "std::cmp::impls::<impl std::cmp::PartialOrd for char>::le": "comparison",
    "std::cmp::impls::<impl std::cmp::PartialOrd for char>::lt": "comparison",
    "std::cmp::impls::<impl std::cmp::PartialOrd for char>::ge": "comparison",
    "std::cmp::impls::<impl std::cmp::PartialOrd for char>::gt": "comparison",
    "std::cmp::impls::<impl std::cmp::PartialEq for char>::eq": "comparison",
}


FN_CALL = re.compile(r"(^|as )std::ops::Fn(Mut|Once)?>?::call(_mut|_once)?$")


def deref_val(eng, st, v):
    if v[0] == "ref":
        return eng.read(st, v[1], v[2])
    return ("deref", v)


def pure(name, args):
    return ("pure", name, tuple(args))


OPT = "std::option::Option"
NONE = ("adt", OPT, "None", 0, ())


def some(v):
    return ("adt", OPT, "Some", 1, (("0", v),))


class StdModels(object):
    """Callable used as Engine.models. `program`/`home` enable inlining of workspace callees;
    `extra` is a list of client models tried first; `inline_ok(callee, body)` is the client's
    inlining policy."""

    def __init__(self, program=None, home=None, extra=None, inline_ok=None):
        self.program = program
        self.home = home
        self.extra = extra or []
        self.inline_ok = inline_ok or (lambda callee, body: True)
        self.read_counter = 0

    def __call__(self, eng, st, c):
        for m in self.extra:
            r = m(eng, st, c)
            if r is not None:
                return r
        name = c.callee
        if name is None:
            return self.call_value(eng, st, c)
        if name in PURE:
            args = [deref_val(eng, st, a) if a[0] == "ref" and name != "std::option::Option::copied"
                    else a for a in c.args]
            return [(st, pure(name, args))]
        if name.endswith("as std::clone::Clone>::clone") or name == "std::clone::Clone::clone" \
                or name.startswith("std::clone::impls::<impl std::clone::Clone for"):
            v = deref_val(eng, st, c.args[0])
            if v[0] in ("int", "char"):
                return [(st, v)]
            return [(st, pure("clone", (v,)))]
        # `opt?`: Option<T> -> ControlFlow<Option<Infallible>, T>, and the early return of None
        if name.endswith("as std::ops::Try>::branch") and c.args and c.args[0][0] == "adt" and c.args[0][1] == OPT:
            v = c.args[0]
            if v[2] == "None":
                return [(st, ("adt", "std::ops::ControlFlow", "Break", 1, (("0", NONE),)))]
            if v[2] == "Some":
                return [(st, ("adt", "std::ops::ControlFlow", "Continue", 0, (("0", v[4][0][1]),)))]
        if name.endswith("::from_residual") and "std::ops::FromResidual" in name and c.args and \
                c.args[0] == NONE:
            return [(st, NONE)]
        if name == "std::option::Option::take":
            a = c.args[0]
            if a[0] == "ref":
                old = eng.read(st, a[1], a[2])
                eng.write(st, a[1], a[2], NONE, (c.site, None))
                return [(st, old)]
        if name == "std::ops::RangeInclusive::new":
            return [(st, ("range", c.args[0], c.args[1]))]
        if name == "std::ops::RangeInclusive::contains":
            r = deref_val(eng, st, c.args[0])
            x = deref_val(eng, st, c.args[1])
            if r[0] == "range" and r[1][0] == "int" and r[2][0] == "int" and x[0] == "char":
                lo, hi = r[1][1], r[2][1]
                return [(st, ("inset", x[1], ivl.inter(ivl.FULL, ((lo, hi),)) if lo <= hi else ()))]
        if name in ("<std::iter::Peekable as std::iter::Iterator>::next",):
            return self.iter_next(eng, st, c)
        if FN_CALL.search(name):
            f = c.args[0]
            if f[0] == "ref":
                f = eng.read(st, f[1], f[2])
            tup = c.args[1]
            if tup[0] == "tuple":
                r = self.apply(eng, st, c, f, list(tup[1]))
                if r is not None:
                    return r
        if name == "std::convert::Into::into" or name == "<T as std::convert::Into>::into" \
                or name == "<T as std::convert::From>::from":
            return [(st, c.args[0])]
        # workspace callee: interpret its body
        if self.program is not None:
            body, crate = self.program.find_body(name, self.home)
            if body is not None and self.inline_ok(name, body):
                saved = self.home
                self.home = crate
                try:
                    r = eng.inline(st, c, body)
                finally:
                    self.home = saved
                if r is not None:
                    return r
        return None

    def iter_next(self, eng, st, c):
        """`Peekable::next(&mut it)`: either exhausted or yields a fresh character; the iterator
        cell is replaced by `advanced(old)`."""
        a = c.args[0]
        out = []
        q = st.clone()
        out.append((q, NONE))
        self.read_counter += 1
        cid = ("c", self.read_counter)
        st.chars[cid] = ivl.FULL
        if a[0] == "ref":
            old = eng.read(st, a[1], a[2])
            eng.write(st, a[1], a[2], ("advanced", old, cid), (c.site, None))
        out.append((st, some(("char", cid))))
        return out

    def apply(self, eng, st, c, f, args):
        """Call of a function value."""
        if f[0] == "fn":
            # enum variant constructors used as functions (`Ok`, `Some`, ...)
            from .segx import norm_path as _np
            path = _np(f[2]) if len(f) > 2 and f[2] else f[1]
            for ctor, adt, vi in (("std::result::Result::Ok", "std::result::Result", 0),
                                  ("std::result::Result::Err", "std::result::Result", 1),
                                  ("std::option::Option::Some", OPT, 1)):
                if (path == ctor or f[1] == ctor) and len(args) == 1:
                    return [(st, ("adt", adt, ctor.rsplit("::", 1)[1], vi, (("0", args[0]),)))]
            if self.program is not None:
                from .segx import norm_path
                body, crate = self.program.find_body(norm_path(path), self.home)
                if body is not None and self.inline_ok(norm_path(path), body):
                    saved = self.home
                    self.home = crate
                    try:
                        return eng.inline(st, c, body, args)
                    finally:
                        self.home = saved
        if f[0] == "closure" and self.program is not None:
            from .segx import norm_path
            body, crate = self.program.find_body(norm_path(f[1]), self.home)
            if body is not None and self.inline_ok(norm_path(f[1]), body):
                saved = self.home
                self.home = crate
                try:
                    env = f if body["mir"]["locals"][1].startswith("{closure") or \
                        body["mir"]["locals"][1].startswith("[closure") else ("ref", ("tmpclosure", f), ())
                    return eng.inline(st, c, body, [env] + args)
                finally:
                    self.home = saved
        return None

    def call_value(self, eng, st, c):
        """Call through a function pointer / closure value."""
        f = c.fnval
        if f is None:
            return None
        return self.apply(eng, st, c, f, c.args)
