"""Readable rendering of mirdump's JSON MIR (debugging aid and replay-file helper)."""
import json
import sys
import glob


def pplace(p):
    s = "_%d" % p["l"]
    for e in p["p"]:
        if e == "*":
            s = "(*%s)" % s
        elif "f" in e:
            s = "%s.%s" % (s, e["f"].rsplit(".", 1)[-1])
        elif "as" in e:
            s = "(%s as %s)" % (s, e["as"])
        elif "idx" in e:
            s = "%s[_%d]" % (s, e["idx"])
        else:
            s = "%s{%s}" % (s, e.get("other"))
    return s


def pop(o):
    if "copy" in o:
        return pplace(o["copy"])
    if "move" in o:
        return "move " + pplace(o["move"])
    if "int" in o:
        ty = o["ty"]
        if ty == "char":
            v = o["int"]
            return repr(chr(v)) if 32 <= v < 127 else "'\\u{%x}'" % v
        return "%d_%s" % (o["int"], ty)
    if "fn" in o:
        return "fn " + o["fn"]
    if "static" in o:
        return "&static " + o["static"]
    if "const" in o:
        return "const %s" % o["const"]
    return json.dumps(o)


def prv(rv):
    k = rv["k"]
    if k == "use":
        return pop(rv["o"])
    if k == "ref":
        return ("&mut " if rv["mut"] else "&") + pplace(rv["p"])
    if k == "rawptr":
        return "&raw " + pplace(rv["p"])
    if k == "discr":
        return "discriminant(%s)" % pplace(rv["p"])
    if k == "bin":
        return "%s(%s, %s)" % (rv["op"], pop(rv["a"]), pop(rv["b"]))
    if k == "un":
        return "%s(%s)" % (rv["op"], pop(rv["a"]))
    if k == "cast":
        return "%s as %s (%s)" % (pop(rv["o"]), rv["ty"], rv["kind"])
    if k == "agg":
        kind = rv["kind"]
        ops = ", ".join(pop(o) for o in rv["ops"])
        if kind.get("agg") == "adt":
            return "%s::%s{%s}" % (kind["adt"], kind["variant"], ops)
        if kind.get("agg") == "closure":
            return "closure %s[%s]" % (kind["def"], ops)
        return "%s(%s)" % (kind.get("agg"), ops)
    return rv.get("dbg", json.dumps(rv))


def pterm(t):
    k = t["k"]
    if k == "goto":
        return "goto bb%d" % t["t"]
    if k == "switch":
        arms = ", ".join("%d: bb%d" % (v, b) for v, b in t["arms"])
        return "switchInt(%s) [%s, otherwise: bb%d]" % (pop(t["d"]), arms, t["else"])
    if k == "call":
        f = t["f"]
        name = t.get("res") or f.get("fn") or pop(f)
        return "%s = %s(%s) -> bb%d" % (
            pplace(t["dest"]), name, ", ".join(pop(a) for a in t["args"]), t["t"])
    if k == "drop":
        return "drop(%s) -> bb%d" % (pplace(t["p"]), t["t"])
    if k == "assert":
        return "assert(%s == %s, %s) -> bb%d" % (pop(t["c"]), t["exp"], t["kind"], t["t"])
    return k


def pbody(b, out=sys.stdout, cleanup=False):
    mir = b["mir"] if "mir" in b else b
    print("fn %s  [%s] expansion=%s" % (b.get("path"), b.get("span"), b.get("from_expansion")), file=out)
    for i, ty in enumerate(mir["locals"]):
        nm = mir.get("names", {}).get(str(i))
        print("  let _%d: %s%s" % (i, ty, ("  // " + nm) if nm else ""), file=out)
    for i, bb in enumerate(mir["blocks"]):
        if bb["cleanup"] and not cleanup:
            continue
        print("  bb%d:%s" % (i, " (cleanup)" if bb["cleanup"] else ""), file=out)
        for st in bb["st"]:
            if "lhs" in st:
                print("    %s = %s" % (pplace(st["lhs"]), prv(st["rv"])), file=out)
            elif "setdiscr" in st:
                print("    discriminant(%s) = %d" % (pplace(st["setdiscr"]), st["v"]), file=out)
            else:
                print("    %s" % json.dumps(st), file=out)
        print("    %s        // %s" % (pterm(bb["term"]), bb.get("span", "").rsplit("/", 1)[-1]), file=out)
    for i, pb in enumerate(b.get("promoted", [])):
        print("  promoted[%d]:" % i, file=out)
        for j, bb in enumerate(pb["blocks"]):
            for st in bb["st"]:
                if "lhs" in st:
                    print("      %s = %s" % (pplace(st["lhs"]), prv(st["rv"])), file=out)
            print("      %s" % pterm(bb["term"]), file=out)


if __name__ == "__main__":
    pat, name = sys.argv[1], sys.argv[2]
    for f in glob.glob(pat):
        d = json.load(open(f))
        for b in d["bodies"]:
            if name in b["path"]:
                pbody(b)
                print()
