"""Translation validation: the LTS extracted from a generated lexer is bisimilar to the reference
automaton of the definition it was generated from (DESIGN.md section 1.4)."""
import itertools

from . import ivl
from .lts import SELF, lx, EL, action_index, RT
from .models import NONE, pure
from .segx import norm_path, project, Engine, Path, Cut
from .rules_runtime import SAVED
from .models import StdModels, some

STD_ITER = pure("clone", (EL("__iter"),))


class Mismatch(Exception):
    def __init__(self, key, msg, detail=None):
        Exception.__init__(self, msg)
        self.key = key
        self.msg = msg
        self.detail = detail


def seg_ctx(seg):
    """Context conditions of a segment as {ctx index: bool}; None if a context was evaluated on
    anything but the standard clone of the remaining input."""
    out = {}
    for (idx, arg), val in seg.ctx.items():
        if arg != STD_ITER:
            return None
        if idx in out and out[idx] != val:
            return None
        out[idx] = val
    return out


def consistent(c, sigma):
    return all(sigma.get(k, v) == v for k, v in c.items())


def merge_ctx(a, b):
    out = dict(a)
    for k, v in b.items():
        if k in out and out[k] != v:
            return None
        out[k] = v
    return out


class View(object):
    """The extracted LTS in the vocabulary of the comparison."""

    def __init__(self, L):
        self.L = L
        self.exp = L.exp

    def save_of(self, seg):
        """What the segment leaves in last_match: ('save', rule) | ('clear',) | ('keep',)."""
        v = seg.eng.read(seg.st, SELF, lx("last_match"))
        if v == NONE:
            return ("clear",)
        if v == EL("last_match"):
            return ("keep",)
        if v[0] == "adt" and v[2] == "Some":
            t = v[4][0][1]
            f = project(t, SAVED["action"])
            k = action_index(self.exp, f)
            if k is None:
                raise Mismatch("tv:save-fn", "set_accepting_state stores something that is not "
                               "one of this lexer's action wrappers", repr(f)[:200])
            # the saved snapshot must be taken at the current position
            ok = (project(t, SAVED["start"]) == EL("current_match_start")
                  and project(t, SAVED["end"]) == EL("current_match_end")
                  and project(t, SAVED["iter"]) == pure("clone", (EL("__iter"),)))
            if not ok:
                raise Mismatch("tv:save-snapshot", "the saved match is not (current start, clone of "
                               "the input, action, current end)", repr(t)[:300])
            return ("save", k)
        raise Mismatch("tv:save-shape", "unrecognised value in last_match", repr(v)[:200])

    def outcome(self, seg):
        """('node', read site, save) | ('goto', k, save) | ('run', rule) | ('fail',) | ('none',)"""
        k = seg.kind
        if k == "read":
            return ("node", seg.target, self.save_of(seg))
        if k == "goto":
            return ("goto", seg.target, self.save_of(seg))
        if k in ("continue", "return-token", "return-custom"):
            how = seg.action[1]
            if how[0] == "direct":
                return ("run", how[1])
            return ("fail",)       # rewind to the saved match
        if k in ("fail-direct", "fail-backtrack"):
            return ("fail",)
        if k == "return-none":
            return ("none",)
        raise Mismatch("tv:outcome", "segment ends in an unrecognised way (%s)" % k, repr(seg)[:300])

    def leaves(self, segs):
        """[(chars, ctx dict, outcome)] with `goto k` composed with arm k's entry segments."""
        out = []
        seen = set()
        for s in segs:
            c = seg_ctx(s)
            if c is None:
                raise Mismatch("tv:ctx-arg", "a right context is evaluated on something other than a "
                               "clone of the remaining input", repr(s.ctx)[:300])
            o = self.outcome(s)
            if o[0] == "goto":
                for a in self.L.arm_segs.get(o[1], []):
                    ca = seg_ctx(a)
                    if ca is None:
                        raise Mismatch("tv:ctx-arg", "bad context argument in arm", None)
                    m = merge_ctx(c, ca)
                    if m is None:
                        continue
                    oa = self.outcome(a)
                    if oa[0] != "node":
                        raise Mismatch("tv:arm", "state arm %d does not lead to a read" % o[1], None)
                    sv = oa[2] if oa[2][0] != "keep" else o[2]
                    key = (s.chars, tuple(sorted(m.items())), ("node", oa[1], sv))
                    if key not in seen:
                        seen.add(key)
                        out.append((s.chars, m, ("node", oa[1], sv)))
            else:
                key = (s.chars, tuple(sorted(c.items())), o)
                if key not in seen:
                    seen.add(key)
                    out.append((s.chars, c, o))
        return out

    def entry_leaves(self, k):
        """Leaves for entering state arm k: [(ctx, ('node', site, save))]."""
        out = []
        for a in self.L.arm_segs.get(k, []):
            ca = seg_ctx(a)
            oa = self.outcome(a)
            if ca is None or oa[0] != "node":
                raise Mismatch("tv:arm", "state arm %d does not lead to a read" % k, None)
            out.append((None, ca, oa))
        return out


def ref_save(ref, d, sigma):
    """Reference save decision on entering live state d under context assignment sigma."""
    for rule, ctx in ref.cand(d):
        if ctx is None or sigma.get(ctx, False):
            return ("save", rule)
    return ("keep",)


def ref_terminal(ref, d, sigma):
    for rule, ctx in ref.cand(d):
        if ctx is None or sigma.get(ctx, False):
            return ("run", rule)
    return ("fail",)


def ctxs_of(ref, d):
    return {c for _, c in ref.cand(d) if c is not None}


def assignments(idxs):
    idxs = sorted(idxs)
    for bits in itertools.product((False, True), repeat=len(idxs)):
        yield dict(zip(idxs, bits))


def same_outcome(ref, a, b):
    """Equal outcomes, where running / saving rule i and rule j are the same thing if the two rules'
    right-hand sides are the same text (a generator may share one action function between them)."""
    if a == b:
        return True
    if a[0] == b[0] and a[0] in ("run", "save") and len(a) == 2 and len(b) == 2:
        c = getattr(ref, "canon", {})
        return c.get(a[1], a[1]) == c.get(b[1], b[1])
    return False


def check_leaf(view, ref, sigma, leaf_out, d, is_eoi, is_init_entry, pairs_out, where):
    """Compare one extracted outcome with the reference state d reached by the same symbol."""
    if not d:
        exp = ("none",) if (is_eoi and is_init_entry) else ("fail",)
        if leaf_out != exp:
            raise Mismatch("tv:dead", "%s: the reference automaton has no transition here, the "
                           "generated lexer does %r (expected %r)" % (where, leaf_out, exp),
                           {"generated": leaf_out, "expected": exp})
        return
    if ref.is_terminal(d):
        exp = ref_terminal(ref, d, sigma)
        if not same_outcome(ref, leaf_out, exp):
            raise Mismatch("tv:terminal", "%s: expected %r, generated lexer does %r (contexts %r)" % (
                where, exp, leaf_out, sigma), {"generated": leaf_out, "expected": exp,
                                               "candidates": ref.cand(d)})
        return
    exp_save = ref_save(ref, d, sigma)
    if leaf_out[0] != "node":
        raise Mismatch("tv:live", "%s: the reference continues to a state with further "
                       "transitions, the generated lexer does %r" % (where, leaf_out),
                       {"generated": leaf_out, "candidates": ref.cand(d)})
    got = leaf_out[2]
    if got[0] == "clear":
        got = ("keep",) if exp_save == ("keep",) and False else got
    if not same_outcome(ref, got, exp_save):
        raise Mismatch("tv:save", "%s: on entering the next state the reference %s, the generated "
                       "lexer %s (contexts %r)" % (where, _say(exp_save), _say(got), sigma),
                       {"generated": got, "expected": exp_save, "candidates": ref.cand(d)})
    pairs_out.append((leaf_out[1], d))


def _say(s):
    if s[0] == "save":
        return "records rule %d as the match so far" % s[1]
    if s[0] == "keep":
        return "keeps the match recorded so far"
    return "clears the recorded match"


def cover_check(leaves, sigma, where):
    """Under one context assignment the consistent leaves partition all scalar values."""
    acc = ()
    for chars, c, o in leaves:
        if not consistent(c, sigma):
            continue
        if ivl.inter(acc, chars):
            raise Mismatch("tv:overlap", "%s: two arms accept the same character under contexts %r"
                           % (where, sigma), ivl.show(ivl.inter(acc, chars)))
        acc = ivl.union(acc, chars)
    if acc != ivl.FULL:
        raise Mismatch("tv:cover", "%s: characters %s are not handled under contexts %r" % (
            where, ivl.show(ivl.minus(ivl.FULL, acc)), sigma), None)


def bisim(L, ref, entry_state, is_init, stats=None):
    """Relate arm `entry_state` of the extracted LTS with the start state of reference automaton
    `ref`. Raises Mismatch; returns the number of related pairs."""
    view = View(L)
    d0 = ref.start
    pairs = []
    work = []
    # entry: saving at the entry state means a rule matches the empty string
    for _, c, o in view.entry_leaves(entry_state):
        for sigma in assignments(set(c) | ctxs_of(ref, d0)):
            if not consistent(c, sigma):
                continue
            exp = ref_save(ref, d0, sigma)
            if not same_outcome(ref, o[2], exp):
                raise Mismatch("tv:entry", "entry state %d: reference %s, generated lexer %s" % (
                    entry_state, _say(exp), _say(o[2])), None)
        work.append((o[1], d0))
    if not work:
        raise Mismatch("tv:entry", "entry state %d has no read" % entry_state, None)
    seen = set()
    n_cmp = 0
    while work:
        n, d = work.pop()
        if (n, d) in seen:
            continue
        seen.add((n, d))
        segs = L.read_segs.get(n)
        if segs is None:
            raise Mismatch("tv:node", "read site %r was not explored" % (n,), None)
        where = "state reached by read %d" % n
        tr, eoi = ref.transitions(d)
        is_entry = is_init and d == d0 and n == L.entry_read(0)
        # ---- characters
        lv = view.leaves(segs["Some"])
        idxs = set()
        for _, c, _o in lv:
            idxs |= set(c)
        for _, t in tr:
            if t:
                idxs |= ctxs_of(ref, t)
        for sigma in assignments(idxs):
            cover_check(lv, sigma, where)
            for chars, c, o in lv:
                if not consistent(c, sigma):
                    continue
                for aset, t in tr:
                    part = ivl.inter(chars, aset)
                    if not part:
                        continue
                    n_cmp += 1
                    out = []
                    check_leaf(view, ref, sigma, o, t, False, False, out,
                               "%s on %s" % (where, ivl.show(part, 4)))
                    work.extend(out)
        # ---- end of input
        le = view.leaves(segs["None"])
        idxs = set()
        for _, c, _o in le:
            idxs |= set(c)
        if eoi:
            idxs |= ctxs_of(ref, eoi)
        for sigma in assignments(idxs):
            got = [o for _, c, o in le if consistent(c, sigma)]
            if len(got) != 1:
                raise Mismatch("tv:eoi-det", "%s: %d outcomes at end of input under contexts %r" % (
                    where, len(got), sigma), None)
            n_cmp += 1
            out = []
            check_leaf(view, ref, sigma, got[0], eoi, True, is_entry, out, where + " at end of input")
            work.extend(out)
    if stats is not None:
        stats["pairs"] = stats.get("pairs", 0) + len(seen)
        stats["comparisons"] = stats.get("comparisons", 0) + n_cmp
    return len(seen)


# ------------------------------------------------------------------------------ right contexts
class CtxLTS(object):
    """Acceptor extracted from a generated `L_RIGHT_CTX_i` function."""

    def __init__(self, body, exp, prog, tables_ok=True):
        self.body = body
        self.exp = exp
        self.reads = {}
        self.entry = None
        self.problems = []
        from .lts import LexModels, ctx_fn_shape
        cursors = ctx_fn_shape(body)[1] or {1}

        def models(eng, st, c):
            name = c.callee or ""
            if name in ("std::iter::Iterator::next", "<I as std::iter::Iterator>::next") and \
                    c.args and c.args[0][0] == "ref" and c.args[0][2] == () and c.args[0][1] in cursors:
                raise Cut(("read", c.site, c.dest, c.target))
            if exp.kind(name)[0] == "bsearch" and tables_ok:
                x, tb = c.args[0], c.args[1]
                if x[0] == "char" and tb[0] == "ref" and tb[1][0] == "static" and \
                        tb[1][1] in exp.statics:
                    from .lts import table_set
                    pairs = table_set(exp.statics[tb[1][1]])
                    return [(st, ("inset", x[1], ivl.inter(ivl.norm(pairs), ivl.FULL)))]
            return None
        std = StdModels(extra=[models])
        self.std = std

        def run(start, st):
            eng = Engine(body, models=std, max_visits=1)
            return eng, eng.run(start, st)
        eng, res = run(0, Path())
        self.entry = self.classify(eng, res, None)
        pending = [o[1] for _, o in self.entry if o[0] == "node"]
        infos = {o[1]: o[2] for _, o in self.entry if o[0] == "node"}
        while pending:
            site = pending.pop()
            if site in self.reads:
                continue
            info = infos[site]
            _, _, dest, target = info
            self.reads[site] = {}
            for outcome in ("None", "Some"):
                st = Path()
                eng = Engine(body, models=std, max_visits=1)
                if outcome == "None":
                    val = NONE
                else:
                    cid = ("r", site)
                    st.chars[cid] = ivl.FULL
                    val = some(("char", cid))
                root, pth = eng.resolve(st, dest)
                eng.write(st, root, pth, val, quiet=True)
                res = eng.run(target, st)
                cl = self.classify(eng, res, ("r", site))
                self.reads[site][outcome] = cl
                for _, o in cl:
                    if o[0] == "node" and o[1] not in self.reads:
                        infos[o[1]] = o[2]
                        pending.append(o[1])

    def classify(self, eng, res, cid):
        out = []
        for st, end in res:
            chars = st.chars.get(cid) if cid else None
            bad = [e for e in st.events if e[0] in ("call", "havoc", "write")]
            if bad:
                self.problems.append("context function has an effect or unknown call: %r" % (bad[0][:2],))
            if end[0] == "CUT":
                out.append((chars, ("node", end[1][1], end[1])))
            elif end[0] == "RETURN" and end[1][0] == "int":
                out.append((chars, ("ret", bool(end[1][1]))))
            else:
                self.problems.append("context function path ends in %r" % (end[:1],))
                out.append((chars, ("bad", end)))
        return out


def bisim_ctx(C, ref):
    """Context acceptor vs reference: accept as soon as an accepting state is reached."""
    if C.problems:
        raise Mismatch("tv:ctx-shape", C.problems[0], C.problems[:5])

    def accepting(d):
        return any(s in ref.nfa.accept for s in d)

    def expect(d):
        """Expected outcome on arriving in reference state d (before reading)."""
        if not d:
            return ("ret", False)
        if accepting(d):
            return ("ret", True)
        return None     # continues reading

    d0 = ref.start
    work = []
    e0 = expect(d0)
    ents = C.entry
    if len(ents) != 1:
        raise Mismatch("tv:ctx-entry", "context function entry is not deterministic", None)
    o = ents[0][1]
    if e0 is not None:
        if o != e0:
            raise Mismatch("tv:ctx-entry", "context entry: expected %r, generated %r" % (e0, o[:2]), None)
        return 1
    if o[0] != "node":
        raise Mismatch("tv:ctx-entry", "context entry: expected a read, generated %r" % (o[:2],), None)
    work.append((o[1], d0))
    seen = set()
    while work:
        n, d = work.pop()
        if (n, d) in seen:
            continue
        seen.add((n, d))
        tr, eoi = ref.transitions(d)
        acc = ()
        for chars, o in C.reads[n]["Some"]:
            if ivl.inter(acc, chars):
                raise Mismatch("tv:ctx-overlap", "context read %d: overlapping arms" % n, None)
            acc = ivl.union(acc, chars)
            for aset, t in tr:
                part = ivl.inter(chars, aset)
                if not part:
                    continue
                e = expect(t)
                if e is not None:
                    if o[:2] != e:
                        raise Mismatch("tv:ctx", "context read %d on %s: expected %r, generated %r" % (
                            n, ivl.show(part, 4), e, o[:2]), None)
                else:
                    if o[0] != "node":
                        raise Mismatch("tv:ctx", "context read %d on %s: reference continues, "
                                       "generated %r" % (n, ivl.show(part, 4), o[:2]), None)
                    work.append((o[1], t))
        if acc != ivl.FULL:
            raise Mismatch("tv:ctx-cover", "context read %d: characters %s not handled" % (
                n, ivl.show(ivl.minus(ivl.FULL, acc))), None)
        ne = C.reads[n]["None"]
        if len(ne) != 1:
            raise Mismatch("tv:ctx-eoi", "context read %d: end of input not deterministic" % n, None)
        o = ne[0][1]
        e = expect(eoi)
        if e is None:
            # a live, non-accepting state after `$`: nothing more can be read, the generated code
            # loops back and reads again (None again): treat as false only if the code does
            e = ("ret", False)
            if o[0] == "node":
                continue
        if o[:2] != e:
            raise Mismatch("tv:ctx-eoi", "context read %d at end of input: expected %r, generated %r"
                           % (n, e, o[:2]), None)
    return len(seen)
