"""Control-flow graph utilities over mirdump bodies: successors, dominators, natural loops."""


def succs(blocks, i, cleanup=False):
    t = blocks[i]["term"]
    k = t["k"]
    if k in ("goto", "drop", "assert"):
        return [t["t"]]
    if k == "switch":
        out = []
        for _, b in t["arms"]:
            if b not in out:
                out.append(b)
        if t["else"] not in out:
            out.append(t["else"])
        return out
    if k == "call":
        return [t["t"]] if t["t"] >= 0 else []
    return []


def reachable(blocks, start=0):
    seen = {start}
    work = [start]
    while work:
        n = work.pop()
        for s in succs(blocks, n):
            if s not in seen:
                seen.add(s)
                work.append(s)
    return seen


def dominators(blocks, start=0):
    """Immediate-dominator-free version: dom[n] = set of dominators of n (iterative)."""
    nodes = sorted(reachable(blocks, start))
    preds = {n: [] for n in nodes}
    for n in nodes:
        for s in succs(blocks, n):
            if s in preds:
                preds[s].append(n)
    allset = set(nodes)
    dom = {n: set(allset) for n in nodes}
    dom[start] = {start}
    changed = True
    while changed:
        changed = False
        for n in nodes:
            if n == start:
                continue
            ps = [dom[p] for p in preds[n]]
            new = set.intersection(*ps) if ps else set()
            new = new | {n}
            if new != dom[n]:
                dom[n] = new
                changed = True
    return dom, preds


def natural_loops(blocks, start=0):
    """{header: set of blocks in the loop} from back edges n -> h with h dominating n."""
    dom, preds = dominators(blocks, start)
    loops = {}
    for n in dom:
        for s in succs(blocks, n):
            if s in dom[n]:
                body = loops.setdefault(s, {s})
                work = [n]
                while work:
                    x = work.pop()
                    if x not in body:
                        body.add(x)
                        work.extend(preds[x])
    return loops, dom, preds


def calls_in(blocks, block_ids=None):
    """[(block index, normalised callee, terminator)] for call terminators."""
    from .segx import norm_path
    out = []
    ids = range(len(blocks)) if block_ids is None else sorted(block_ids)
    for i in ids:
        bb = blocks[i]
        if bb["cleanup"]:
            continue
        t = bb["term"]
        if t["k"] == "call":
            out.append((i, norm_path(t.get("resp") or t["f"].get("path")), t))
    return out


def control_deps(blocks, start=0):
    """{block: set of branching blocks it is (transitively) control dependent on}.

    Unwinding and panics are left out: an edge into a block from which no `return` can be reached
    (a failed assertion, an `unreachable` arm, a panic call) is not an edge, so code after a bounds
    check does not count as depending on the check. Control dependence is Ferrante/Ottenstein/Warren
    over the post-dominator sets of what remains, with one virtual exit after the `return` blocks."""
    nodes = sorted(n for n in reachable(blocks, start) if not blocks[n]["cleanup"])
    rets = [n for n in nodes if blocks[n]["term"]["k"] == "return"]
    preds = {n: [] for n in nodes}
    for n in nodes:
        for s in succs(blocks, n):
            if s in preds:
                preds[s].append(n)
    live = set(rets)
    work = list(rets)
    while work:
        x = work.pop()
        for p in preds[x]:
            if p not in live:
                live.add(p)
                work.append(p)
    EXIT = -1
    sc = {n: [s for s in succs(blocks, n) if s in live] for n in live}
    for r in rets:
        sc[r] = [EXIT]
    sc[EXIT] = []
    order = sorted(live)
    allset = set(order) | {EXIT}
    pdom = {n: set(allset) for n in order}
    pdom[EXIT] = {EXIT}
    changed = True
    while changed:
        changed = False
        for n in reversed(order):
            ss = [pdom[s] for s in sc[n]]
            new = (set.intersection(*ss) if ss else set()) | {n}
            if new != pdom[n]:
                pdom[n] = new
                changed = True
    direct = {n: set() for n in order}
    for a in order:
        if len(sc[a]) < 2:
            continue
        for s in sc[a]:
            # every node that post-dominates s but does not strictly post-dominate a
            for x in pdom[s]:
                if x != EXIT and (x == a or x not in pdom[a]):
                    direct[x].add(a)
    out = {}
    for n in order:
        seen = set()
        work = list(direct[n])
        while work:
            x = work.pop()
            if x in seen:
                continue
            seen.add(x)
            work.extend(direct.get(x, ()))
        out[n] = seen
    return out
