"""Control-flow graph utilities over mirdump bodies: successors, dominators, natural loops."""


def succs(blocks, i, cleanup=False):
    t = blocks[i]["term"]
    k = t["k"]
    if k in ("goto", "drop", "assert"):
        return [t["t"]]
    if k == "switch":
        out = []
        for _, b in t["arms"]:
            if b not in out:
                out.append(b)
        if t["else"] not in out:
            out.append(t["else"])
        return out
    if k == "call":
        return [t["t"]] if t["t"] >= 0 else []
    return []


def reachable(blocks, start=0):
    seen = {start}
    work = [start]
    while work:
        n = work.pop()
        for s in succs(blocks, n):
            if s not in seen:
                seen.add(s)
                work.append(s)
    return seen


def dominators(blocks, start=0):
    """Immediate-dominator-free version: dom[n] = set of dominators of n (iterative)."""
    nodes = sorted(reachable(blocks, start))
    preds = {n: [] for n in nodes}
    for n in nodes:
        for s in succs(blocks, n):
            if s in preds:
                preds[s].append(n)
    allset = set(nodes)
    dom = {n: set(allset) for n in nodes}
    dom[start] = {start}
    changed = True
    while changed:
        changed = False
        for n in nodes:
            if n == start:
                continue
            ps = [dom[p] for p in preds[n]]
            new = set.intersection(*ps) if ps else set()
            new = new | {n}
            if new != dom[n]:
                dom[n] = new
                changed = True
    return dom, preds


def natural_loops(blocks, start=0):
    """{header: set of blocks in the loop} from back edges n -> h with h dominating n."""
    dom, preds = dominators(blocks, start)
    loops = {}
    for n in dom:
        for s in succs(blocks, n):
            if s in dom[n]:
                body = loops.setdefault(s, {s})
                work = [n]
                while work:
                    x = work.pop()
                    if x not in body:
                        body.add(x)
                        work.extend(preds[x])
    return loops, dom, preds


def calls_in(blocks, block_ids=None):
    """[(block index, normalised callee, terminator)] for call terminators."""
    from .segx import norm_path
    out = []
    ids = range(len(blocks)) if block_ids is None else sorted(block_ids)
    for i in ids:
        bb = blocks[i]
        if bb["cleanup"]:
            continue
        t = bb["term"]
        if t["k"] == "call":
            out.append((i, norm_path(t.get("resp") or t["f"].get("path")), t))
    return out
