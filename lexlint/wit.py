"""Witness definitions: generation of sources, compilation under mirdump, analysis, tv."""
import hashlib
import json
import multiprocessing
import os
import pickle
import re
import shutil
import subprocess
import time

from . import facts, ivl, lts, rules_gen, rules_who, tv, analysis
from .program import Program, Crate
from .refsem import RefDef, Undefined
from .rx import Def, Rule

WIT_TIMEOUT = 60


class Witness(object):
    """One generated source file with one lexer definition (or raw text) and what to do with it."""

    def __init__(self, name, family, d=None, raw=None, expect="pass", tv=True, kinds=None,
                 note=None, prelude="", twin_of=None):
        self.name = name            # unique, file-system safe
        self.family = family
        self.d = d                  # rx.Def or None
        self.raw = raw              # full source text when not generated from a Def
        self.expect = expect        # 'pass' | 'fail' (must be rejected at expansion time)
        self.tv = tv and d is not None and expect == "pass"
        self.kinds = kinds          # expected wrapper kinds {index: kind}
        self.note = note
        self.prelude = prelude
        self.twin_of = twin_of

    def source(self):
        if self.raw is not None:
            return self.raw
        return "#![allow(warnings)]\n%s\n%s" % (self.prelude, self.d.render())


def artifacts(fdir):
    """Paths of the proc-macro and the runtime's metadata built from the current tree (recorded by
    the fact build of the same tree state)."""
    with open(os.path.join(fdir, "ARTIFACTS")) as f:
        a = json.load(f)
    for k in ("lexgen_so", "lexgen_util_rmeta"):
        if not os.path.exists(a[k]):
            raise facts.BuildFailure("artifact %s is gone; remove .work/facts and rerun" % a[k], "")
    return a["lexgen_so"], a["lexgen_util_rmeta"], a["deps"]


def _compile(job):
    src, out_dir, name, so, rmeta, deps, timeout = job
    env = facts.tool_env({"MIRDUMP_OUT": out_dir, "MIRDUMP_NAME": name, "MIRDUMP_STOP": "1"})
    cmd = [facts.MIRDUMP, src, "--edition", "2021", "--crate-type", "lib", "--crate-name", name,
           "-L", "dependency=" + deps, "--extern", "lexgen=" + so, "--extern", "lexgen_util=" + rmeta,
           "-Zmir-opt-level=0", "-Awarnings", "-C", "debug-assertions=on", "-C", "overflow-checks=on",
           "--error-format=short"]
    t0 = time.time()
    try:
        r = subprocess.run(cmd, env=env, stdout=subprocess.PIPE, stderr=subprocess.PIPE,
                           universal_newlines=True, timeout=timeout)
        return name, r.returncode, r.stderr[-4000:], time.time() - t0
    except subprocess.TimeoutExpired:
        return name, "timeout", "", time.time() - t0


def build_witnesses(fdir, wits, jobs=16, log=None):
    """Compile witnesses (those not yet compiled for this tree). Returns {name: (rc, stderr)}."""
    wdir = os.path.join(os.path.dirname(fdir), "wit")
    sdir = os.path.join(wdir, "src")
    os.makedirs(sdir, exist_ok=True)
    status_path = os.path.join(wdir, "status.json")
    with facts.Lock("wit-%s.lock" % os.path.basename(os.path.dirname(fdir))):
        status = {}
        if os.path.exists(status_path):
            with open(status_path) as f:
                status = json.load(f)
        todo = []
        art = None
        for w in wits:
            src = w.source()
            h = hashlib.sha256(src.encode()).hexdigest()[:16]
            st = status.get(w.name)
            if st and st["hash"] == h and (st["rc"] != 0 or os.path.exists(
                    os.path.join(wdir, w.name + ".json"))):
                continue
            if art is None:
                art = artifacts(fdir)
            p = os.path.join(sdir, w.name + ".rs")
            with open(p, "w") as f:
                f.write(src)
            fj = os.path.join(wdir, w.name + ".json")
            if os.path.exists(fj):
                os.remove(fj)
            todo.append((w, h, (p, wdir, w.name, art[0], art[1], art[2], WIT_TIMEOUT)))
        if todo:
            ctxm = multiprocessing.get_context("fork")
            with ctxm.Pool(min(jobs, len(todo))) as pool:
                results = pool.map(_compile, [j for _, _, j in todo], chunksize=1)
            for (w, h, _), (name, rc, err, dt) in zip(todo, results):
                status[name] = {"hash": h, "rc": rc, "stderr": err, "wall": round(dt, 2)}
            tmp = status_path + ".tmp%d" % os.getpid()
            with open(tmp, "w") as f:
                json.dump(status, f)
            os.replace(tmp, status_path)
    return wdir, {w.name: status[w.name] for w in wits}


def builtin_sets(prog):
    """name -> interval set, read from the analysed tree's own tables (builtin.rs, char_ranges.rs)."""
    lex = prog.crate("lexgen")
    names = lex.statics.get("builtin::BUILTIN_RANGES")
    out = {}
    if not names or "hir_pairs" not in names:
        return out
    get_ranges = lex.body("builtin::BuiltinCharRange::get_ranges")
    variant_table = {}
    if get_ranges is not None:
        blocks = get_ranges["mir"]["blocks"]
        t = blocks[0]["term"]
        if t["k"] == "switch":
            adt = lex.adt("builtin::BuiltinCharRange")
            vnames = [v["name"] for v in adt["variants"]]
            for val, tgt in t["arms"]:
                for st in blocks[tgt]["st"]:
                    o = st.get("rv", {}).get("o", {})
                    if "static" in o:
                        variant_table[vnames[val]] = o["static"]
    for pair in names["hir_pairs"]:
        nm = pair[0].get("str")
        var = pair[1].get("path", "").rsplit("::", 1)[-1]
        tb = variant_table.get(var)
        if nm and tb and tb in lex.statics and "u32s" in lex.statics[tb]:
            u = lex.statics[tb]["u32s"]
            out[nm] = ivl.inter(ivl.norm([(u[i], u[i + 1]) for i in range(0, len(u), 2)]), ivl.FULL)
    return out


def tv_obligations(rec, label, key, d, exp, L, g, prog, bsets, where):
    """Bisimulation of every rule set and every right context of definition d with the LTS
    extracted from expansion exp. Records TV / TV-CTX obligations; returns statistics."""
    stats = {}
    try:
        ref = RefDef(d, bsets)
    except Undefined as e:
        rec.ob("TV", "%s: reference semantics defined" % label, False,
               key="TV:%s:undefined" % key, where=where, detail=str(e))
        return stats
    sm = dict(getattr(g, "switch_map", {}) or {})
    for rs_name, aut in ref.rule_sets.items():
        if d.sets is None or rs_name == "Init":
            entry = 0
        else:
            entry = sm.get(rs_name)
        desc = "%s: rule set %s of the generated lexer is bisimilar to its reference automaton" % (
            label, rs_name)
        if entry is None:
            rec.ob("TV", desc, False, key="TV:%s:%s:no-entry" % (key, rs_name), where=where,
                   detail="switch() has no arm for this rule set")
            continue
        if d.sets is not None and rs_name == "Init" and sm.get("Init", 0) != 0:
            rec.ob("TV", "%s: switch(Init) targets state 0" % label, False,
                   key="TV:%s:init-entry" % key, where=where)
        try:
            tv.bisim(L, aut, entry, rs_name == "Init", stats)
            rec.ob("TV", desc, True)
        except tv.Mismatch as m:
            rec.ob("TV", desc, False, key="TV:%s:%s:%s" % (key, rs_name, m.key), where=where,
                   detail={"mismatch": m.msg, "detail": m.detail, "definition": d.render()[:3000]})
    for ci, caut in enumerate(ref.ctxs):
        desc = "%s: right context %d accepts exactly the reference language" % (label, ci)
        body = exp.ctx_fns().get(ci)
        if body is None:
            rec.ob("TV-CTX", desc, False, key="TV-CTX:%s:%d:missing" % (key, ci), where=where)
            continue
        try:
            C = tv.CtxLTS(body, exp, prog)
            n = tv.bisim_ctx(C, caut)
            stats["ctx_pairs"] = stats.get("ctx_pairs", 0) + n
            rec.ob("TV-CTX", desc, True)
        except tv.Mismatch as m:
            rec.ob("TV-CTX", desc, False, key="TV-CTX:%s:%d:%s" % (key, ci, m.key), where=where,
                   detail={"mismatch": m.msg, "detail": m.detail, "definition": d.render()[:3000]})
    return stats


class WitResult(object):
    def __init__(self, w):
        self.name = w.name
        self.family = w.family
        self.expect = w.expect
        self.rc = None
        self.stderr = ""
        self.obligations = []
        self.counts = {}
        self.notes = []
        self.stats = {}
        self.pairs = 0
        self.comparisons = 0
        self.programs = 0
        self.src = None


_G = {}


def _analyse(i):
    w = _G["wits"][i]
    wdir, status, fdir = _G["wdir"], _G["status"], _G["fdir"]
    st = status[w.name]
    res = WitResult(w)
    res.rc = st["rc"]
    res.stderr = st["stderr"]
    res.src = os.path.join(wdir, "src", w.name + ".rs")
    rec = analysis.Recorder()
    where = "witness %s (%s) %s" % (w.name, w.family, res.src)
    first_err = ""
    for line in (st["stderr"] or "").splitlines():
        if "error" in line:
            first_err = line.strip()[:300]
            break
    if st["rc"] == "timeout":
        rec.ob("COMPILE", "witness %s: macro expansion finishes (watchdog %d s)" % (w.name, WIT_TIMEOUT),
               False, key="COMPILE:%s:timeout" % w.name, where=where,
               detail="expansion did not finish: a worklist in the macro does not terminate on this "
                      "definition\n" + (w.d.render() if w.d else ""))
        res.obligations = rec.rec
        return res
    if w.expect == "fail":
        macro_err = bool(re.search(r"proc.macro panicked|error: custom attribute panicked|"
                                   r"help: message:", st["stderr"] or "")) or \
            (st["rc"] != 0 and "lexer!" in (st["stderr"] or "") or "lexgen::lexer" in (st["stderr"] or ""))
        rec.ob("REJECT", "witness %s: ill-formed definition is rejected at expansion time" % w.name,
               st["rc"] != 0, key="REJECT:%s" % w.name, where=where,
               detail={"note": w.note, "stderr": (st["stderr"] or "")[:500]})
        res.obligations = rec.rec
        res.stats = {"first_error": first_err}
        return res
    ok = rec.ob("COMPILE", "witness %s: expansion type-checks" % w.name, st["rc"] == 0,
                key="COMPILE:%s" % w.name, where=where,
                detail={"note": w.note, "stderr": (st["stderr"] or "")[:1500],
                        "definition": w.d.render() if w.d else None})
    if not ok:
        res.obligations = rec.rec
        return res
    prog = Program(fdir)
    crate = Crate(facts.load(os.path.join(wdir, w.name + ".json")))
    prog.add(crate, (w.name, True))
    prog.crate("lexgen_util")
    try:
        from . import rules_runtime as _rr
        _rr.use_saved_layout(prog)
    except Exception:
        pass
    exps = lts.find_expansions(crate)
    res.programs = len(exps)
    for exp in exps:
        r = analysis.analyse_one(prog, exp, expected_kinds=w.kinds, keep_lts=w.tv)
        for o in r.obligations:
            rec.rec.append(o)
        for k, v in r.counts.items():
            rec.count(k, v)
        rec.notes.extend(r.notes)
        res.stats[exp.id] = r.stats
        if w.tv and "lts" in r.extra:
            stats = tv_obligations(rec, "witness %s" % w.name, w.name, w.d, exp, r.extra["lts"],
                                   r.extra["gen"], prog, _G["bsets"], where)
            res.pairs += stats.get("pairs", 0) + stats.get("ctx_pairs", 0)
            res.comparisons += stats.get("comparisons", 0)
        r.extra = {}
    res.obligations = rec.rec
    res.counts = rec.counts
    res.notes = rec.notes
    return res


def run_witnesses(fdir, wits, tag, jobs=16):
    """Compile and analyse; results cached per (tree, checker code, witness set)."""
    h = hashlib.sha256()
    for w in wits:
        h.update(w.name.encode())
        h.update(w.source().encode())
        h.update(repr((w.expect, w.tv, w.kinds)).encode())
    cdir = analysis.cache_dir(fdir)
    path = os.path.join(cdir, "wit-%s-%s.pkl" % (tag, h.hexdigest()[:12]))
    if os.path.exists(path) and not os.environ.get("VERIF_NO_CACHE"):
        with open(path, "rb") as f:
            return pickle.load(f)
    wdir, status = build_witnesses(fdir, wits, jobs)
    prog = Program(fdir)
    _G.update({"wits": wits, "wdir": wdir, "status": status, "fdir": fdir,
               "bsets": builtin_sets(prog)})
    prog.crate("lexgen_util")
    order = list(range(len(wits)))
    if len(wits) > 4:
        ctxm = multiprocessing.get_context("fork")
        with ctxm.Pool(min(jobs, len(wits))) as pool:
            out = pool.map(_analyse, order, chunksize=4)
    else:
        out = [_analyse(i) for i in order]
    os.makedirs(cdir, exist_ok=True)
    tmp = path + ".tmp%d" % os.getpid()
    with open(tmp, "wb") as f:
        pickle.dump(out, f)
    os.replace(tmp, path)
    return out
