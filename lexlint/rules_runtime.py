"""Rules on the runtime library `lexgen_util` (scope: all lexer definitions, all inputs).

R-SUM    effect summaries of the 9 methods and 4 constructors equal the specification table
R-PAIR   set_accepting_state / backtrack save and restore the same fields in the same positions
R-CTOR   constructors agree on everything except `input` and the iterator's source
R-PANIC  may-panic sites equal the allow-list
R-TYPES  no shared mutable state reachable from a Lexer value; Clone is derived
"""
import re

from . import ivl
from .models import StdModels, NONE, OPT, pure, some
from .segx import Engine, Path, UNIT, norm_path, project

SELF = ("obj", ("param", 1))
ALL_LEXER_FIELDS = ["__state", "__done", "__initial_state", "user_state", "input", "iter_loc",
                    "__iter", "current_match_start", "current_match_end", "last_match"]
# `iter_loc` is written by backtrack and the constructors and read by nothing: the contract holds with
# or without it
OPTIONAL_FIELDS = {"iter_loc"}
LEXER_FIELDS = list(ALL_LEXER_FIELDS)
LOC_FIELDS = ["line", "col", "byte_idx"]
ALL_LOC_TYPED = ["iter_loc", "current_match_start", "current_match_end"]
LOC_TYPED = list(ALL_LOC_TYPED)

METHODS = ["next", "peek", "backtrack", "reset_accepting_state", "set_accepting_state",
           "reset_match", "match_", "match_loc", "state"]
CTORS = ["new", "new_with_state", "new_from_iter", "new_from_iter_with_state"]


def E(*path):
    return ("entry", SELF, tuple(path))


def leaves():
    out = []
    for f in LEXER_FIELDS:
        if f in LOC_TYPED:
            for l in LOC_FIELDS:
                out.append((f, l))
        else:
            out.append((f,))
    return out


def is_zero(v):
    return (v[0] == "int" and v[1] == 0) or (v[0] == "bytes" and not any(v[2]))


class Summary(object):
    """One path through a method: conditions, changed leaves, return value, events."""

    def __init__(self, eng, st, end):
        self.st = st
        self.end = end
        self.ret = end[1] if end[0] == "RETURN" else None
        self.changed = {}
        for lf in leaves():
            v = eng.read(st, SELF, lf)
            if v != ("entry", SELF, lf):
                self.changed[lf] = v
        self.facts = dict(st.facts)
        self.chars = dict(st.chars)
        self.asserts = [e for e in st.events if e[0] == "assert"]
        self.calls = [e for e in st.events if e[0] == "call"]
        self.failed = [e for e in st.events if e[0] == "inline-failed"]


def summarize(prog, crate, body, max_visits=1):
    models = StdModels(program=prog, home=crate)
    eng = Engine(body, models=models, max_visits=max_visits)
    res = eng.run(0, Path())
    return eng, [Summary(eng, st, end) for st, end in res]


def expand_loc(v):
    """A Loc value as its three leaves."""
    return tuple(project(v, l) for l in LOC_FIELDS)


def loc_entry(f):
    return tuple(E(f, l) for l in LOC_FIELDS)


def show(v, depth=0):
    """Compact rendering of abstract values for reports."""
    if depth > 6:
        return "..."
    k = v[0]
    if k == "entry":
        base = "self" if v[1] == SELF else show(v[1], depth + 1)
        return base + "".join("." + p for p in v[2]) + "@entry"
    if k == "int":
        return str(v[1])
    if k == "param":
        return "arg%d" % v[1]
    if k == "pure":
        return "%s(%s)" % (v[1].rsplit("::", 1)[-1], ", ".join(show(a, depth + 1) for a in v[2]))
    if k == "bin":
        return "(%s %s %s)" % (show(v[2], depth + 1), v[1], show(v[3], depth + 1))
    if k == "adt":
        return "%s::%s(%s)" % (v[1].rsplit("::", 1)[-1], v[2],
                               ", ".join("%s" % show(x, depth + 1) for _, x in v[4]))
    if k == "tuple":
        return "(" + ", ".join(show(x, depth + 1) for x in v[1]) + ")"
    if k == "proj":
        return show(v[1], depth + 1) + "." + v[2]
    if k == "char":
        return "c%s" % (v[1],)
    if k == "ref":
        return "&" + show(("entry", v[1], v[2]), depth + 1).replace("@entry", "")
    if k == "obj":
        return "*" + show(v[1], depth + 1)
    if k == "cast":
        return "(%s as %s)" % (show(v[2], depth + 1), v[3])
    if k == "bytes":
        return v[3]
    return repr(v)[:80]


def contains_term(v, pred):
    if pred(v):
        return True
    if isinstance(v, tuple):
        for x in v:
            if isinstance(x, tuple) and contains_term(x, pred):
                return True
    return False


def lexer_adt(util):
    a = util.adt("Lexer")
    return a


def merge_paths(sums):
    """Merge paths with identical effects (union of their character conditions)."""
    groups = {}
    for s in sums:
        if s.end[0] != "RETURN":
            groups[("end", repr(s.end), id(s))] = [s]
            continue
        # character variables are named per read; rename to position for comparison
        key = (repr(sorted(s.changed.items())), repr(s.ret),
               repr(sorted((repr(k), v) for k, v in s.facts.items())))
        groups.setdefault(key, []).append(s)
    return list(groups.values())


def check_rsum(ctx, prog):
    util = prog.crate("lexgen_util")
    adt = lexer_adt(util)
    ok = ctx.ob("R-SUM", "struct lexgen_util::Lexer found", adt is not None, key="R-SUM:anchor:Lexer")
    if not ok:
        return {}
    fields = [f["name"] for f in adt["variants"][0]["fields"]]
    LEXER_FIELDS[:] = [f for f in ALL_LEXER_FIELDS if f in fields or f not in OPTIONAL_FIELDS]
    LOC_TYPED[:] = [f for f in ALL_LOC_TYPED if f in LEXER_FIELDS]
    if not ctx.ob("R-SUM", "Lexer's fields are exactly the ones the specification table covers (the table is "
                  "written over this representation of the lexer's state; when the representation changes the "
                  "table in lexlint/rules_runtime.py has to be revised with it, nothing further is decided)",
                  sorted(fields) == sorted(LEXER_FIELDS), key="R-SUM:fields",
                  where=adt["span"], detail={"found": fields, "expected": LEXER_FIELDS}):
        return {}
    # ... and hold what the table takes them to hold
    ftypes0 = {f["name"]: re.sub(r"\s+", " ", str(f["ty"])) for f in adt["variants"][0]["fields"]}
    shapes = {"__state": r"^usize$", "__done": r"^bool$", "__initial_state": r"^usize$",
              "input": r"^&('\w+ )?str$", "__iter": r"^std::iter::Peekable<\w+>$",
              "last_match": r"^std::option::Option<\(.*\)>$"}
    odd = {f: ftypes0.get(f) for f, pat in shapes.items() if not re.search(pat, ftypes0.get(f) or "")}
    if "last_match" in odd:
        # ... or as a private struct of this crate with the same four components
        mm = re.match(r"^std::option::Option<([A-Za-z_][\w:]*)(<.*>)?>$", ftypes0.get("last_match") or "")
        sa = util.adt(mm.group(1)) if mm else None
        if sa is not None and len(sa["variants"]) == 1 and len(sa["variants"][0]["fields"]) == 4:
            del odd["last_match"]
    lay = use_saved_layout(prog)
    if lay is None and not odd:
        odd["last_match"] = "the four components (start, clone of the input, action, end) stored by " \
                            "set_accepting_state were not found"
    if not ctx.ob("R-SUM", "Lexer's fields have the types the specification table is written for (state numbers, "
                  "the input string, a Peekable iterator, the saved match as an optional tuple); with another "
                  "representation the table has to be revised, nothing further is decided", not odd,
                  key="R-SUM:field-types", where=adt["span"], detail=odd):
        return {}
    ftypes = {f["name"]: f["ty"] for f in adt["variants"][0]["fields"]}
    for f in LOC_TYPED:
        ctx.ob("R-SUM", "field %s has type Loc" % f, (ftypes.get(f) or "").rsplit("::", 1)[-1] == "Loc",
               key="R-SUM:type:" + f)
    loc = util.adt("Loc") or next((a for p, a in util.adts.items() if p.rsplit("::", 1)[-1] == "Loc"), None)
    ctx.ob("R-SUM", "Loc has fields line, col, byte_idx",
           loc is not None and [f["name"] for f in loc["variants"][0]["fields"]] == LOC_FIELDS,
           key="R-SUM:Loc")

    result = {}
    for m in METHODS + CTORS:
        body = util.body("Lexer::" + m)
        if not ctx.ob("R-SUM", "method Lexer::%s found" % m, body is not None,
                      key="R-SUM:anchor:" + m):
            continue
        eng, sums = summarize(prog, util, body)
        result[m] = (eng, sums, body)
        ctx.count("runtime_paths", len(sums))
        where = body["span"]
        for s in sums:
            if s.end[0] != "RETURN":
                ctx.ob("R-SUM", "%s: every path ends in return" % m, False,
                       key="R-SUM:%s:end" % m, where=where, detail=repr(s.end))
            for e in s.calls:
                ctx.ob("R-SUM", "%s: calls only modelled callees (found %s)" % (m, e[1]), False,
                       key="R-SUM:%s:call:%s" % (m, e[1]), where=e[4],
                       detail="callee has no model and no body in the workspace: its effect on "
                              "the lexer state cannot be established")
            for e in s.failed:
                ctx.ob("R-SUM", "%s: helper %s can be summarised" % (m, e[1]), False,
                       key="R-SUM:%s:inline:%s" % (m, e[1]), where=where, detail=repr(e[2]))
        checker = globals().get("spec_" + m)
        checker(ctx, m, where, sums)
    return result


def _expect_changed(ctx, m, where, s, expected, what, may=None):
    """`expected`: dict leaf -> value. All other leaves must be unchanged, except that the leaves in
    `may` may take the value given there (an effect the contract permits but does not require)."""
    ok = True
    if may:
        expected = dict(expected)
        hit = [lf for lf, v in may.items() if s.changed.get(lf) is not None]
        if hit:
            if all(s.changed.get(lf) == v for lf, v in may.items() if lf in s.changed) and \
                    len(hit) == len(may):
                expected.update(may)
    for lf, v in expected.items():
        got = s.changed.get(lf, ("entry", SELF, lf))
        if got != v:
            ok = False
            ctx.ob("R-SUM", "%s (%s): %s := %s" % (m, what, ".".join(lf), show(v)), False,
                   key="R-SUM:%s:%s:%s" % (m, what, ".".join(lf)), where=where,
                   detail={"expected": show(v), "found": show(got)})
        else:
            ctx.ob("R-SUM", "%s (%s): %s := %s" % (m, what, ".".join(lf), show(v)), True)
    for lf, got in s.changed.items():
        if lf not in expected:
            ok = False
            ctx.ob("R-SUM", "%s (%s): %s is not written" % (m, what, ".".join(lf)), False,
                   key="R-SUM:%s:%s:extra:%s" % (m, what, ".".join(lf)), where=where,
                   detail={"found": show(got)})
    if ok:
        ctx.ob("R-SUM", "%s (%s): no other field written" % (m, what), True)
    return ok


def _expect_ret(ctx, m, where, s, expected, what):
    ctx.ob("R-SUM", "%s (%s): returns %s" % (m, what, show(expected)), s.ret == expected,
           key="R-SUM:%s:%s:ret" % (m, what), where=where,
           detail={"expected": show(expected), "found": show(s.ret) if s.ret else None})


def _single(ctx, m, where, sums):
    groups = merge_paths(sums)
    ok = ctx.ob("R-SUM", "%s: one behaviour on all paths" % m, len(groups) == 1,
                key="R-SUM:%s:paths" % m, where=where, detail="%d distinct behaviours" % len(groups))
    return groups[0][0] if ok else None


def spec_reset_match(ctx, m, where, sums):
    s = _single(ctx, m, where, sums)
    if s:
        _expect_changed(ctx, m, where, s, dict(zip([("current_match_start", l) for l in LOC_FIELDS],
                                                   loc_entry("current_match_end"))), "always")
        _expect_ret(ctx, m, where, s, UNIT, "always")


def spec_reset_accepting_state(ctx, m, where, sums):
    s = _single(ctx, m, where, sums)
    if s:
        _expect_changed(ctx, m, where, s, {("last_match",): NONE}, "always")


# positions of the four components of the saved match (a tuple, or a private struct of lexgen_util seen
# as a tuple of its fields in declaration order); found from what set_accepting_state stores
SAVED = {"start": "0", "iter": "1", "action": "2", "end": "3"}


def discover_saved_layout(prog):
    util = prog.crate("lexgen_util")
    body = util.body("Lexer::set_accepting_state")
    if body is None:
        return None
    try:
        eng, sums = summarize(prog, util, body)
    except Exception:
        return None
    if len(sums) != 1:
        return None
    got = sums[0].changed.get(("last_match",))
    if not (got is not None and got[0] == "adt" and got[2] == "Some"):
        return None
    t = got[4][0][1]
    if not (t[0] == "tuple" and len(t[1]) == 4):
        return None
    lay = {}
    for i, comp in enumerate(t[1]):
        try:
            locs = expand_loc(comp)
        except Exception:
            locs = None
        if comp == pure("clone", (E("__iter"),)):
            lay["iter"] = str(i)
        elif comp == ("param", 2):
            lay["action"] = str(i)
        elif locs == loc_entry("current_match_start"):
            lay["start"] = str(i)
        elif locs == loc_entry("current_match_end"):
            lay["end"] = str(i)
    return lay if len(lay) == 4 else None


def use_saved_layout(prog):
    lay = discover_saved_layout(prog)
    if lay is not None:
        SAVED.update(lay)
    return lay


def saved_tuple():
    comps = {SAVED["start"]: E("current_match_start"), SAVED["iter"]: pure("clone", (E("__iter"),)),
             SAVED["action"]: ("param", 2), SAVED["end"]: E("current_match_end")}
    return ("tuple", tuple(comps[str(i)] for i in range(4)))


def spec_set_accepting_state(ctx, m, where, sums):
    s = _single(ctx, m, where, sums)
    if not s:
        return
    got = s.changed.get(("last_match",))
    exp_tuple = saved_tuple()
    ok = False
    if got is not None and got[0] == "adt" and got[2] == "Some":
        t = got[4][0][1]
        if t[0] == "tuple" and len(t[1]) == 4:
            a, it, f, b = (t[1][int(SAVED[k])] for k in ("start", "iter", "action", "end"))
            ok = (expand_loc(a) == loc_entry("current_match_start")
                  and it == pure("clone", (E("__iter"),)) and f == ("param", 2)
                  and expand_loc(b) == loc_entry("current_match_end"))
    ctx.ob("R-SUM", "set_accepting_state: last_match := Some of (start, clone(__iter), f, end), in the order "
           "of the saved match's components", ok,
           key="R-SUM:set_accepting_state:last_match", where=where,
           detail={"found": show(got) if got else None})
    extra = [lf for lf in s.changed if lf != ("last_match",)]
    ctx.ob("R-SUM", "set_accepting_state: no other field written", not extra,
           key="R-SUM:set_accepting_state:extra", where=where, detail=extra)


def spec_match_loc(ctx, m, where, sums):
    s = _single(ctx, m, where, sums)
    if s:
        _expect_changed(ctx, m, where, s, {}, "always")
        ok = (s.ret is not None and s.ret[0] == "tuple" and len(s.ret[1]) == 2
              and expand_loc(s.ret[1][0]) == loc_entry("current_match_start")
              and expand_loc(s.ret[1][1]) == loc_entry("current_match_end"))
        ctx.ob("R-SUM", "match_loc: returns (current_match_start, current_match_end)", ok,
               key="R-SUM:match_loc:ret", where=where, detail=show(s.ret) if s.ret else None)


def spec_match_(ctx, m, where, sums):
    s = _single(ctx, m, where, sums)
    if s:
        _expect_changed(ctx, m, where, s, {}, "always")
        exp = pure("core::str::traits::<impl std::ops::Index for str>::index",
                   (E("input"), ("adt", "std::ops::Range", "Range", 0,
                                 (("start", E("current_match_start", "byte_idx")),
                                  ("end", E("current_match_end", "byte_idx"))))))
        _expect_ret(ctx, m, where, s, exp, "always")


def spec_state(ctx, m, where, sums):
    s = _single(ctx, m, where, sums)
    if s:
        _expect_changed(ctx, m, where, s, {}, "always")
        _expect_ret(ctx, m, where, s, ("ref", SELF, ("user_state",)), "always")


def spec_peek(ctx, m, where, sums):
    s = _single(ctx, m, where, sums)
    if s:
        _expect_changed(ctx, m, where, s, {}, "always")
        exp = pure("std::option::Option::copied", (pure("std::iter::Peekable::peek", (E("__iter"),)),))
        _expect_ret(ctx, m, where, s, exp, "always")


def spec_backtrack(ctx, m, where, sums):
    lm = E("last_match")
    none_paths = [s for s in sums if s.facts.get(("discr", lm)) == 0]
    some_paths = [s for s in sums if s.facts.get(("discr", lm)) == 1]
    ctx.ob("R-SUM", "backtrack: branches exactly on whether a match is saved",
           len(none_paths) >= 1 and len(some_paths) >= 1
           and len(none_paths) + len(some_paths) == len([s for s in sums if s.end[0] == "RETURN"]),
           key="R-SUM:backtrack:paths", where=where)
    t = project(project(lm, "@Some"), "0")
    for s in none_paths:
        exp = {("__state",): ("int", 0, "usize"), ("__initial_state",): ("int", 0, "usize"),
               ("last_match",): NONE}
        # the failure may already empty the current match (start := end) - every failure path has to, in
        # the runtime or in the generated code that calls it (P6 decides that on the composition)
        may = {("current_match_start", l): E("current_match_end", l) for l in LOC_FIELDS}
        _expect_changed(ctx, m, where, s, exp, "nothing saved", may=may)
        r = s.ret
        ok = (r is not None and r[0] == "adt" and r[2] == "Err")
        if ok:
            e = r[4][0][1]
            ok = (e[0] == "adt" and e[1].endswith("LexerError")
                  and expand_loc(project(e, "location")) == loc_entry("current_match_start")
                  and project(e, "kind")[0] == "adt" and project(e, "kind")[2] == "InvalidToken")
        ctx.ob("R-SUM", "backtrack (nothing saved): returns Err{location: start@entry, InvalidToken}",
               ok, key="R-SUM:backtrack:none:ret", where=where, detail=show(r) if r else None)
    for s in some_paths:
        exp = {("__done",): ("int", 0, "bool"), ("__iter",): project(t, SAVED["iter"]), ("last_match",): NONE}
        for i, l in enumerate(LOC_FIELDS):
            exp[("current_match_start", l)] = project(project(t, SAVED["start"]), l)
            exp[("current_match_end", l)] = project(project(t, SAVED["end"]), l)
            if "iter_loc" in LEXER_FIELDS:
                exp[("iter_loc", l)] = project(project(t, SAVED["end"]), l)
        _expect_changed(ctx, m, where, s, exp, "match saved")
        r = s.ret
        ok = (r is not None and r[0] == "adt" and r[2] == "Ok" and r[4][0][1] == project(t, SAVED["action"]))
        ctx.ob("R-SUM", "backtrack (match saved): returns Ok(saved action)", ok,
               key="R-SUM:backtrack:some:ret", where=where, detail=show(r) if r else None)


def spec_next(ctx, m, where, sums):
    it = E("__iter")
    nones = [s for s in sums if s.ret == NONE]
    somes = [s for s in sums if s.ret is not None and s.ret != NONE]
    ctx.ob("R-SUM", "next: has an exhausted path and a character path", nones and somes,
           key="R-SUM:next:paths", where=where)
    for s in nones:
        _expect_changed(ctx, m, where, s, {}, "exhausted")
    NL, TAB = ((10, 10),), ((9, 9),)
    REST = ivl.minus(ivl.FULL, ((9, 10),))
    seen = {}
    for s in somes:
        if len(s.chars) != 1:
            ctx.ob("R-SUM", "next: one character read per call", False, key="R-SUM:next:reads",
                   where=where, detail=len(s.chars))
            continue
        cid, cs = list(s.chars.items())[0]
        c = ("char", cid)
        ctx.ob("R-SUM", "next: returns Some(the character read)", s.ret == some(c),
               key="R-SUM:next:ret", where=where, detail=show(s.ret))
        bidx = ("bin", "Add", E("current_match_end", "byte_idx"),
                pure("std::char::methods::<impl char>::len_utf8", (c,)))
        common = {("__iter",): ("advanced", it, cid), ("current_match_end", "byte_idx"): bidx}
        for part, name in ((NL, "newline"), (TAB, "tab"), (REST, "other")):
            sub = ivl.inter(cs, part)
            if not sub:
                continue
            if sub != cs and not ivl.is_subset(cs, part):
                ctx.ob("R-SUM", "next: a path mixes %s with other characters" % name, False,
                       key="R-SUM:next:mix:" + name, where=where, detail=ivl.show(cs))
                continue
            seen[name] = ivl.union(seen.get(name, ()), cs)
            exp = dict(common)
            if name == "newline":
                exp[("current_match_end", "line")] = ("bin", "Add", E("current_match_end", "line"),
                                                      ("int", 1, "u32"))
                exp[("current_match_end", "col")] = ("int", 0, "u32")
                _expect_changed(ctx, m, where, s, exp, name)
            elif name == "tab":
                exp[("current_match_end", "col")] = ("bin", "Add", E("current_match_end", "col"),
                                                     ("int", 4, "u32"))
                _expect_changed(ctx, m, where, s, exp, name)
            else:
                got = s.changed.get(("current_match_end", "col"))
                okw = (got is not None and got[0] == "bin" and got[1] == "Add"
                       and got[2] == E("current_match_end", "col")
                       and contains_term(got[3], lambda v: v[0] == "pure" and v[1] ==
                                         "<char as unicode_width::UnicodeWidthChar>::width"
                                         and v[2] == (c,))
                       and not contains_term(got[3], lambda v: v[0] == "entry"))
                ctx.ob("R-SUM", "next (other): col := col + f(display width of the character)", okw,
                       key="R-SUM:next:other:col", where=where, detail=show(got) if got else None)
                rest = {k: v for k, v in s.changed.items() if k != ("current_match_end", "col")}
                s2 = type("S", (), {"changed": rest})()
                _expect_changed(ctx, m, where, s2, common, name)
    for part, name in ((NL, "newline"), (TAB, "tab"), (REST, "other")):
        ctx.ob("R-SUM", "next: %s characters are all handled" % name, seen.get(name) == part,
               key="R-SUM:next:cover:" + name, where=where)


def _ctor_fields(ret):
    if ret is None or ret[0] != "adt" or ret[1] not in ("Lexer", "lexgen_util::Lexer"):
        return None
    return dict(ret[4])


def _spec_ctor(ctx, m, where, sums, input_v, iter_v, state_v):
    s = _single(ctx, m, where, sums)
    if not s:
        return
    f = _ctor_fields(s.ret)
    if not ctx.ob("R-SUM", "%s: returns a Lexer value" % m, f is not None,
                  key="R-SUM:%s:ret" % m, where=where, detail=show(s.ret) if s.ret else None):
        return
    exp = {"__state": lambda v: v == ("int", 0, "usize"), "__done": lambda v: v == ("int", 0, "bool"),
           "__initial_state": lambda v: v == ("int", 0, "usize"),
           "user_state": lambda v: v == state_v, "input": lambda v: v == input_v,
           "iter_loc": is_zero, "__iter": lambda v: v == iter_v,
           "current_match_start": is_zero, "current_match_end": is_zero,
           "last_match": lambda v: v == NONE}
    for name, pred in exp.items():
        if name not in LEXER_FIELDS:
            continue
        ctx.ob("R-SUM", "%s: field %s initialised as specified" % (m, name),
               name in f and pred(f[name]), key="R-SUM:%s:%s" % (m, name), where=where,
               detail=show(f[name]) if name in f else None)


CHARS = "core::str::<impl str>::chars"
DEFAULT = pure("std::default::Default::default", ())


def _peekable(v):
    return v[0] == "pure" and v[1].endswith("::peekable")


def spec_new_with_state(ctx, m, where, sums):
    s = sums[0] if sums else None
    f = _ctor_fields(s.ret) if s else None
    it = f.get("__iter") if f else None
    okit = it is not None and _peekable(it) and it[2] == (pure(CHARS, (("param", 1),)),)
    _spec_ctor(ctx, m, where, sums, ("param", 1), it if okit else ("bad",), ("param", 2))


def spec_new_from_iter_with_state(ctx, m, where, sums):
    s = sums[0] if sums else None
    f = _ctor_fields(s.ret) if s else None
    it = f.get("__iter") if f else None
    okit = it is not None and _peekable(it) and it[2] == (("param", 1),)
    inp = f.get("input") if f else None
    # `input` of an iterator-built lexer is read only by match_(), which is documented as
    # unavailable for iterator input: any string constant is acceptable
    okin = inp is not None and inp[0] == "sym" and (inp[2] or "").startswith("&") and "str" in inp[2]
    _spec_ctor(ctx, m, where, sums, inp if okin else ("bad",), it if okit else ("bad",), ("param", 2))


def spec_new(ctx, m, where, sums):
    s = sums[0] if sums else None
    f = _ctor_fields(s.ret) if s else None
    it = f.get("__iter") if f else None
    okit = it is not None and _peekable(it) and it[2] == (pure(CHARS, (("param", 1),)),)
    _spec_ctor(ctx, m, where, sums, ("param", 1), it if okit else ("bad",), DEFAULT)


def spec_new_from_iter(ctx, m, where, sums):
    s = sums[0] if sums else None
    f = _ctor_fields(s.ret) if s else None
    it = f.get("__iter") if f else None
    okit = it is not None and _peekable(it) and it[2] == (("param", 1),)
    inp = f.get("input") if f else None
    # `input` of an iterator-built lexer is read only by match_(), which is documented as
    # unavailable for iterator input: any string constant is acceptable
    okin = inp is not None and inp[0] == "sym" and (inp[2] or "").startswith("&") and "str" in inp[2]
    _spec_ctor(ctx, m, where, sums, inp if okin else ("bad",), it if okit else ("bad",), DEFAULT)


def check_rpair(ctx, prog, rsum):
    """Positions of the saved tuple: what set_accepting_state puts at position i from field X is
    what backtrack restores into X."""
    if "set_accepting_state" not in rsum or "backtrack" not in rsum:
        ctx.ob("R-PAIR", "summaries available", False, key="R-PAIR:anchor")
        return
    _, ssums, sbody = rsum["set_accepting_state"]
    _, bsums, bbody = rsum["backtrack"]
    saved = {}
    for s in ssums:
        got = s.changed.get(("last_match",))
        if got and got[0] == "adt" and got[2] == "Some" and got[4][0][1][0] == "tuple":
            for i, comp in enumerate(got[4][0][1][1]):
                if comp[0] == "entry" and comp[1] == SELF:
                    saved[i] = comp[2][0]
                elif comp[0] == "pure" and comp[1] == "clone" and comp[2][0][0] == "entry":
                    saved[i] = comp[2][0][2][0]
                elif comp[0] == "agg" or comp[0] == "adt":
                    l = expand_loc(comp)
                    if all(x[0] == "entry" for x in l):
                        saved[i] = l[0][2][0]
    restored = {}
    lm = E("last_match")
    t = project(project(lm, "@Some"), "0")
    for s in bsums:
        if s.facts.get(("discr", lm)) != 1:
            continue
        for lf, v in s.changed.items():
            for i in range(4):
                comp = project(t, str(i))
                if v == comp or (len(lf) == 2 and v == project(comp, lf[1])):
                    restored.setdefault(lf[0], set()).add(i)
    for i, field in sorted(saved.items()):
        ctx.ob("R-PAIR", "tuple position %d is saved from %s and restored into %s" % (i, field, field),
               i in restored.get(field, ()), key="R-PAIR:%s" % field, where=bbody["span"],
               detail={"saved": {str(k): v for k, v in saved.items()},
                       "restored": {k: sorted(v) for k, v in restored.items()}})
    for f in ("current_match_start", "current_match_end", "__iter"):
        ctx.ob("R-PAIR", "%s takes part in save/restore" % f, f in saved.values(),
               key="R-PAIR:saved:" + f, where=sbody["span"])


PANIC_CALLEES = re.compile(
    r"(^core::panicking::|^std::rt::begin_panic|::unwrap$|::expect$|::unwrap_err$|"
    r"::expect_err$|std::ops::Index|std::ops::IndexMut|::unreachable|^std::process::|"
    r"slice_index|::copy_from_slice$|::split_at$|::swap$|::remove$|::insert$)")


def describe_assert(eng, e):
    """Key of an Assert terminator: kind plus the field/operands it guards, no line numbers."""
    kind, ops = e[1], e[4]

    def opname(v):
        if v[0] == "entry":
            return ".".join(v[2])
        if v[0] == "int":
            return str(v[1])
        if contains_term(v, lambda x: len(x) > 1 and x[0] == "pure" and isinstance(x[1], str)
                         and x[1].endswith("UnicodeWidthChar>::width")):
            return "width"
        if v[0] == "pure":
            return v[1].rsplit("::", 1)[-1]
        if v[0] == "cast":
            return opname(v[2])
        if v[0] == "proj" or v[0] == "bin":
            return "expr"
        return v[0]
    return "%s:%s" % (kind, "+".join(opname(o) for o in ops))


def may_panic_sites(prog, crate, body):
    """(key, where) for every may-panic construct on some path of `body`."""
    out = []
    mir = body["mir"]
    for i, bb in enumerate(mir["blocks"]):
        if bb["cleanup"]:
            continue
        t = bb["term"]
        if t["k"] == "call":
            name = norm_path(t.get("resp") or t["f"].get("path"))
            if name and PANIC_CALLEES.search(name):
                out.append(("call:" + name, bb.get("span")))
            if t["t"] < 0:
                out.append(("diverges:" + str(name), bb.get("span")))
    return out


# (function, key) -> reason
RUNTIME_PANIC_ALLOW = {
    ("Lexer::match_", "call:core::str::traits::<impl std::ops::Index for str>::index"):
        "documented: slices the user's input by the two byte indices of the current match; both "
        "are positions the iterator reached (C06), called only from user actions",
    ("Lexer::next", "Overflow(Add):current_match_end.byte_idx+len_utf8"):
        "usize byte counter: overflow needs 2^64 bytes of input",
}


def helper_roots(util):
    """Private (non-pub) functions of lexgen_util reachable from the specified methods and
    constructors: helper name -> set of specified methods that (transitively) call it. Their code is
    part of those methods' behaviour (segx inlines them), so rules attribute it to the callers."""
    spec = {"Lexer::" + m for m in METHODS + CTORS}
    calls = {}
    for b in util.bodies:
        name = norm_path(b["path"])
        cs = set()
        for bb in b["mir"]["blocks"]:
            t = bb["term"]
            if t["k"] == "call":
                c = norm_path(t.get("resp") or t["f"].get("path"))
                if c and util.body(c) is not None:
                    cs.add(c)
        calls[name] = cs
    roots = {}
    for m in spec:
        seen = set()
        work = list(calls.get(m, ()))
        while work:
            x = work.pop()
            if x in seen or x in spec:
                continue
            b = util.body(x)
            if b is None or b["from_expansion"] or "Public" in (b.get("vis") or ""):
                continue
            seen.add(x)
            roots.setdefault(x, set()).add(m)
            work.extend(calls.get(x, ()))
    return roots


def check_rpanic_runtime(ctx, prog, rsum):
    util = prog.crate("lexgen_util")
    n = 0
    helpers = helper_roots(util)
    for b in util.bodies:
        if b["from_expansion"]:
            continue  # derives (Debug/Clone/PartialEq)
        name = norm_path(b["path"])
        if name in helpers:
            continue  # interpreted as part of its callers (its sites appear in their summaries)
        sites = list(may_panic_sites(prog, util, b))
        short = name.split("::")[-1]
        if short in rsum:
            eng, sums, _ = rsum[short]
            seen = set()
            for s in sums:
                for e in s.asserts:
                    k = describe_assert(eng, e)
                    if k not in seen:
                        seen.add(k)
                        sites.append((k, e[3]))
        else:
            for i, bb in enumerate(b["mir"]["blocks"]):
                if not bb["cleanup"] and bb["term"]["k"] == "assert":
                    sites.append((bb["term"]["kind"], bb.get("span")))
        for key, where in sites:
            n += 1
            allowed = (name, key) in RUNTIME_PANIC_ALLOW
            ctx.ob("R-PANIC", "%s: may-panic site %s is on the allow-list" % (name, key), allowed,
                   key="R-PANIC:lexgen_util::%s:%s" % (name, key), where=where,
                   detail="a construct that can panic for some input in the runtime library")
    ctx.count("runtime_may_panic_sites", n)
    return n


FORBIDDEN_TYPES = re.compile(r"\b(Rc|Arc|Cell|RefCell|UnsafeCell|Mutex|RwLock|OnceCell|OnceLock|"
                             r"LazyLock|Atomic\w+)\b|\*const|\*mut|&mut|&'\w+ mut")
NONDET_CALLEES = re.compile(r"RandomState|std::time::|std::env::|std::thread::|std::process::id|"
                            r"\brand::|getrandom|std::fs::|std::net::|std::io::stdin")


def strip_fn_sigs(ty):
    """Remove the parameter lists of function-pointer types: `fn(&mut W) -> R` stores no `&mut`."""
    out = []
    i = 0
    while i < len(ty):
        if ty.startswith("fn(", i) and (i == 0 or not (ty[i - 1].isalnum() or ty[i - 1] == "_")):
            depth = 0
            j = i + 2
            while j < len(ty):
                if ty[j] == "(":
                    depth += 1
                elif ty[j] == ")":
                    depth -= 1
                    if depth == 0:
                        break
                j += 1
            out.append("fn()")
            i = j + 1
            continue
        out.append(ty[i])
        i += 1
    return "".join(out)


def clone_is_fieldwise(util, nm, adt):
    """A hand-written `clone` of struct nm returns nm { f: self.f.clone() (or a copy of self.f), .. }."""
    from .rules_thompson import Sym, show as tshow
    body = None
    for b in util.bodies:
        p = norm_path(b["path"])
        if p.endswith("as std::clone::Clone>::clone") and re.search(r"<(\w+::)*%s\b" % re.escape(nm), p):
            body = util.body(p) or b
    if body is None:
        return False, "the body of the Clone impl was not found"
    if len(adt["variants"]) != 1:
        return False, "hand-written Clone of an enum is not analysed"
    sym = Sym(body, {1: "self"}, crate=util)
    ret = sym.local(0)
    alts = list(ret[1]) if ret[0] == "phi" else [ret]
    fields = adt["variants"][0]["fields"]
    for r in alts:
        if not (r[0] == "agg" and r[1].startswith("adt:") and r[1][4:].rsplit(":", 1)[0].rsplit("::", 1)[-1] == nm
                and len(r[2]) == len(fields)):
            return False, {"returned": tshow(r)[:200], "why": "not a %s built field by field" % nm}
        for i, (f, op) in enumerate(zip(fields, r[2])):
            want = ("path", ("param", "self"), (("f", i),))
            o = op
            while isinstance(o, tuple) and len(o) == 4 and o[0] == "call" and (
                    o[1].endswith("Clone>::clone") or o[1].endswith("::clone")) and len(o[3]) == 1:
                o = o[3][0]
            if o != want:
                return False, {"field": f["name"], "is": tshow(op)[:160],
                               "why": "not the clone (or copy) of the same field of `self`: the copy starts from "
                                      "a different state than the original is in"}
    return True, None


def check_rtypes(ctx, prog):
    util = prog.crate("lexgen_util")
    adt = util.adt("Lexer")
    if not ctx.ob("R-TYPES", "struct Lexer found", adt is not None, key="R-TYPES:anchor"):
        return
    for name in ("Lexer", "Loc", "LexerError", "LexerErrorKind"):
        a = util.adt(name)
        if a is None:
            continue
        for v in a["variants"]:
            for f in v["fields"]:
                bad = FORBIDDEN_TYPES.search(strip_fn_sigs(f["ty"]))
                ctx.ob("R-TYPES", "%s.%s: type %s has no shared-mutable or pointer component" % (
                    name, f["name"], f["ty"][:60]), not bad, key="R-TYPES:%s.%s" % (name, f["name"]),
                    where=a["span"], detail=bad.group(0) if bad else None)
    impls = util.data["impls"]
    def _last(t):
        return t.split("<", 1)[0].rsplit("::", 1)[-1] + ("<" if "<" in t else "")
    for ty_prefix, what in (("Lexer<", "Lexer"), ("Loc", "Loc")):
        cl = [i for i in impls if i["trait"] == "std::clone::Clone"
              and (_last(i["self_ty"]) == ty_prefix or i["self_ty"] == ty_prefix
                   or i["self_ty"].startswith(ty_prefix))]
        ctx.ob("R-TYPES", "impl Clone for %s exists and is derived (field-wise)" % what,
               len(cl) == 1 and cl[0]["derived"], key="R-TYPES:clone:" + what,
               where=cl[0]["span"] if cl else None)
    # every other type of lexgen_util that the lexer's state is made of: same two requirements; a Clone
    # written by hand must still be field-wise (each field of the result is the clone / copy of the same
    # field of `self`)
    known = {"Lexer", "Loc", "LexerError", "LexerErrorKind"}
    reach, work = set(), ["Lexer"]
    short = {p.rsplit("::", 1)[-1]: p for p in util.adts}
    while work:
        nm = work.pop()
        a = util.adt(nm) or util.adts.get(short.get(nm, ""))
        if a is None or nm in reach:
            continue
        reach.add(nm)
        for v in a["variants"]:
            for f in v["fields"]:
                for w in re.findall(r"[A-Za-z_][A-Za-z0-9_]*", strip_fn_sigs(f["ty"])):
                    if w in short and w not in reach:
                        work.append(w)
    for nm in sorted(reach - known):
        a = util.adt(nm) or util.adts.get(short.get(nm, ""))
        for v in a["variants"]:
            for f in v["fields"]:
                bad = FORBIDDEN_TYPES.search(strip_fn_sigs(f["ty"]))
                ctx.ob("R-TYPES", "%s.%s: type %s has no shared-mutable or pointer component" % (
                    nm, f["name"], f["ty"][:60]), not bad, key="R-TYPES:%s.%s" % (nm, f["name"]),
                    where=a["span"], detail=bad.group(0) if bad else None)
        cl = [i for i in impls if i["trait"] == "std::clone::Clone" and _last(i["self_ty"]).rstrip("<") == nm]
        if not cl:
            continue        # named in a function-pointer signature only: a field's type must be Clone for
                            # Lexer's derived Clone to compile
        ok = len(cl) == 1 and cl[0]["derived"]
        det = None
        if len(cl) == 1 and not cl[0]["derived"]:
            ok, det = clone_is_fieldwise(util, nm, a)
        ctx.ob("R-TYPES", "impl Clone for %s (part of the lexer's state) is derived, or written by hand field by "
               "field" % nm, ok, key="R-TYPES:clone:" + nm, where=cl[0]["span"] if cl else a["span"], detail=det)
    cp = [i for i in impls if i["trait"] == "std::marker::Copy" and i["self_ty"].rsplit("::", 1)[-1] == "Loc"]
    ctx.ob("R-TYPES", "Loc is Copy (locations are plain values)", len(cp) == 1, key="R-TYPES:copy:Loc")
    dr = [i for i in impls if i["trait"] == "std::ops::Drop"]
    ctx.ob("R-TYPES", "lexgen_util defines no Drop impl", not dr, key="R-TYPES:drop")
    for s in util.data["statics"]:
        ctx.ob("R-TYPES", "static %s is immutable and Freeze" % s["path"],
               not s["mutable"] and s["freeze"], key="R-TYPES:static:" + s["path"], where=s["span"])
    n = 0
    for b in util.bodies:
        for bb in b["mir"]["blocks"]:
            t = bb["term"]
            if t["k"] == "call":
                n += 1
                name = t.get("res") or t["f"].get("fn") or ""
                bad = NONDET_CALLEES.search(name)
                ctx.ob("R-TYPES", "call to nondeterministic API %s" % name, not bad,
                       key="R-TYPES:nondet:" + norm_path(name), where=bb.get("span")) if bad else None
    ctx.count("runtime_call_sites_scanned", n)
    ctx.ob("R-TYPES", "no call in lexgen_util reaches a nondeterministic API (%d call sites)" % n, True)


def check_rctor(ctx, prog, rsum):
    """Pairwise agreement of the constructors (from their summaries)."""
    fs = {}
    for m in CTORS:
        if m in rsum and rsum[m][1]:
            f = _ctor_fields(rsum[m][1][0].ret)
            if f:
                fs[m] = f
    if not ctx.ob("R-CTOR", "all four constructor summaries available", len(fs) == 4,
                  key="R-CTOR:anchor"):
        return
    base = fs["new_with_state"]
    for m in CTORS:
        for name in LEXER_FIELDS:
            if name in ("input", "__iter", "user_state"):
                continue
            ctx.ob("R-CTOR", "%s and new_with_state agree on %s" % (m, name),
                   name in fs[m] and name in base and (
                       fs[m][name] == base[name] or (is_zero(fs[m][name]) and is_zero(base[name]))),
                   key="R-CTOR:%s:%s" % (m, name))
    ctx.ob("R-CTOR", "with_state constructors store the given user state",
           fs["new_with_state"].get("user_state") == ("param", 2)
           and fs["new_from_iter_with_state"].get("user_state") == ("param", 2), key="R-CTOR:state")
    ctx.ob("R-CTOR", "new/new_from_iter use Default::default() as user state",
           fs["new"].get("user_state") == DEFAULT and fs["new_from_iter"].get("user_state") == DEFAULT,
           key="R-CTOR:default")
    def inner(v):
        """x for Peekable(x) / peekable(x); the value itself when the iterator is stored as it is"""
        return v[2] if (isinstance(v, tuple) and len(v) > 2 and isinstance(v[2], tuple) and len(v[2]) == 1) else (v,)
    ctx.ob("R-CTOR", "string constructors iterate over exactly the chars of the input",
           fs["new"].get("__iter") == fs["new_with_state"].get("__iter") and "__iter" in fs["new"]
           and inner(fs["new"]["__iter"]) == (pure(CHARS, (("param", 1),)),), key="R-CTOR:chars")
    ctx.ob("R-CTOR", "iterator constructors use exactly the given iterator",
           fs["new_from_iter"].get("__iter") == fs["new_from_iter_with_state"].get("__iter")
           and "__iter" in fs["new_from_iter"]
           and inner(fs["new_from_iter"]["__iter"]) == (("param", 1),), key="R-CTOR:iter")
