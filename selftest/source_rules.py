"""Runs every source rule (R-* on crates lexgen) against VERIF_REPO and prints the violations; used by
cross_refactor_mutants.py."""
import sys,time
sys.path.insert(0, __import__('os').path.dirname(__import__('os').path.dirname(__import__('os').path.abspath(__file__))))
from lexlint import facts, program, report, rules_src as rs, rules_thompson as rt
fd=facts.repo_facts()
prog=program.Program(fd)
ctx=report.Ctx('T')
for mod,f in [(rs,'check_rwl'),(rs,'check_rexh'),(rs,'check_rdet'),(rs,'check_rparse'),(rs,'check_rscope'),(rs,'check_rchk'),(rs,'check_rflow'),(rs,'check_rorder'),(rt,'check_roffset'),(rt,'check_rshift'),(rs,'check_rinline'),(rt,'check_rthompson'),(rt,'check_rclassdispatch'),(rt,'check_rprim'),(rt,'check_rsubset'),(rt,'check_rprov')]:
    try:
        getattr(mod,f)(ctx,prog)
    except Exception as e:
        import traceback; traceback.print_exc()
for v in ctx.violations: print(v['key'],'|',v['message'][:200],'|',str(v['detail'])[:400])
print(len(ctx.obligations),'obligations',len(ctx.violations),'violations')
