#!/usr/bin/env python3
"""Regenerates selftest/mutants/*.patch and selftest/benign/*.patch from string edits applied to a
scratch worktree of /repo's HEAD (outside /repo and /verif, removed afterwards). Each edit asserts
that its anchor text exists, so a patch never silently becomes empty."""
import json
import os
import shutil
import subprocess
import sys

HERE = os.path.dirname(os.path.abspath(__file__))
REPO = os.environ.get("VERIF_REPO", "/repo")
SCRATCH = "/tmp/lexlint-mkmut"

CG = "crates/lexgen/src/dfa/codegen.rs"
UTIL = "crates/lexgen_util/src/lib.rs"
BT = "crates/lexgen/src/dfa/backtrack.rs"
N2D = "crates/lexgen/src/nfa_to_dfa.rs"
SIMP = "crates/lexgen/src/dfa/simplify.rs"
CTX = "crates/lexgen/src/dfa/codegen/ctx.rs"
LIB = "crates/lexgen/src/lib.rs"
AST = "crates/lexgen/src/ast.rs"
BUILTIN = "crates/lexgen/src/builtin.rs"
RANGES = "crates/lexgen/src/char_ranges.rs"
COLL = "crates/lexgen/src/collections.rs"
DFA = "crates/lexgen/src/dfa.rs"
GEN = "crates/char_range_gen/src/main.rs"
R2N = "crates/lexgen/src/regex_to_nfa.rs"

# name -> (expected properties, [(file, old, new), ...], note)
MUTANTS = {
    "m01_fail_ignores_accepting": (["C01", "C07"], [(CG, "if *backtrack || !accepting.is_empty() {", "if *backtrack {")],
                                   "an accepting state whose read fails raises an error in place"),
    "m02_backtracks_skip_eoi": (["C01"], [(BT, """        if let Some(next) = dfa.states[state.0].end_of_input_transition {
            work_list.push((next, successor_backtrack));
        }
""", "")], "update_backtracks ignores end-of-input successors"),
    "m03_no_any_merge_for_ranges": (["C02"], [(N2D, """            for any_next in &any_transitions {
                range_states.insert(*any_next);
            }
""", "")], "`_` targets not merged into range targets"),
    "m04_simplify_shift_off_by_one": (["C03"], [(SIMP, "*t = t.map(|i| i - idx);", "*t = t.map(|i| i + 1 - idx.max(1));")],
                                      "rule-set entry indices shifted wrongly when terminal states are removed"),
    "m05_switch_no_renumber": (["C03"], [(CG, "let StateIdx(state_idx) = ctx.renumber_state(*state_idx);\n        let rule_ident",
                                          "let StateIdx(state_idx) = *state_idx;\n        let rule_ident")],
                               "switch targets not renumbered for inlined states"),
    "m06_accept_chain_reversed": (["C01", "C04"], [(CG, """        for (cond, rhs) in rhss.into_iter().rev() {
            set_accepting_state = quote!(if #cond { #rhs } else { #set_accepting_state });""",
                                                    """        for (cond, rhs) in rhss.into_iter() {
            set_accepting_state = quote!(if #cond { #rhs } else { #set_accepting_state });""")],
                                  "context candidates tested in reverse priority order"),
    "m07_accept_chain_no_break": (["C01"], [(CG, """                    default = quote!(self.0.set_accepting_state(#semantic_fn););
                    break;""", """                    default = quote!(self.0.set_accepting_state(#semantic_fn););""")],
                                  "last context-free rule wins instead of the first"),
    "m08_token_span_swapped": (["C06"], [(CG, "Ok(tok) => Ok((match_start, tok, match_end)),", "Ok(tok) => Ok((match_end, tok, match_start)),")],
                               "token span start/end swapped"),
    "m09_backtrack_restores_swapped": (["C06", "C01"], [(UTIL, """                self.current_match_start = match_start;
                self.current_match_end = match_end;""", """                self.current_match_start = match_end;
                self.current_match_end = match_start;""")], "rewind restores start/end swapped"),
    "m10_backtrack_keeps_done": (["C05"], [(UTIL, "                self.__done = false;\n", "")],
                                 "rewind from end of input leaves the stream finished"),
    "m11_eoi_does_not_set_done": (["C05"], [(CG, "        self.0.__done = true; // don't handle end-of-input again\n", "")],
                                  "end of input handled more than once"),
    "m12_continue_resets_match": (["C10"], [(CG, """        ::lexgen_util::SemanticActionResult::Continue => {
            self.0.__state = self.0.__initial_state;""", """        ::lexgen_util::SemanticActionResult::Continue => {
            self.0.reset_match();
            self.0.__state = self.0.__initial_state;""")], "continue_() loses the accumulated match"),
    "m13_no_reset_accepting_state": (["C09", "C10"], [(CG, "        self.0.reset_accepting_state();\n", "")],
                                     "a stale saved match survives an action"),
    "m15_bsearch_end_exclusive": (["C13", "C11"], [(CG, "if c <= *end {", "if c < *end {")],
                                  "binary search treats range ends as exclusive"),
    "m16_guard_end_exclusive": (["C11", "C02"], [(CG, "quote!((#range_start..=#range_end).contains(&#value))", "quote!((#range_start..#range_end).contains(&#value))")],
                                "range guards exclude the last character"),
    "m17_builtin_names_swapped": (["C13"], [(BUILTIN, '("lowercase", BuiltinCharRange::Lowercase),\n    ("numeric", BuiltinCharRange::Numeric),\n    ("uppercase", BuiltinCharRange::Uppercase),',
                                             '("lowercase", BuiltinCharRange::Uppercase),\n    ("numeric", BuiltinCharRange::Numeric),\n    ("uppercase", BuiltinCharRange::Lowercase),')],
                                  "$$lowercase and $$uppercase bound to each other's tables"),
    "m18_table_entry_altered": (["C13"], [(RANGES, "pub static ASCII_HEXDIGIT: [(u32, u32); 3] = [(48, 57), (65, 70), (97, 102)];", "pub static ASCII_HEXDIGIT: [(u32, u32); 3] = [(48, 57), (65, 71), (97, 102)];")],
                                "one table entry wrong"),
    "m19_std_hashmap": (["C12"], [(COLL, "pub type Map<K, V> = FxHashMap<K, V>;", "pub type Map<K, V> = std::collections::HashMap<K, V>;")],
                        "randomly seeded map: expansion not deterministic"),
    "m20_mixed_rules_accepted": (["C17"], [(LIB, """        if named && unnamed {
            panic!(""", """        if named && unnamed && false {
            panic!(""")], "named and unnamed rules may be mixed"),
    "m21_concat_no_underscore": (["C16"], [(AST, "        || input.peek(syn::token::Bracket)\n        || input.peek(syn::token::Underscore)\n", "        || input.peek(syn::token::Bracket)\n")],
                                 "`_` does not continue a concatenation"),
    "m22_bindings_shared": (["C16", "C17"], [
        (LIB, """                    let dfa = init_dfa.insert(compile_rule_set(
                        rules,
                        bindings.clone(),
                        &mut right_ctx_dfas,
                    ));""", """                    let dfa = init_dfa.insert(compile_rule_set(
                        rules,
                        &mut bindings,
                        &mut right_ctx_dfas,
                    ));"""),
        (LIB, "let dfa_ = compile_rule_set(rules, bindings.clone(), &mut right_ctx_dfas);", "let dfa_ = compile_rule_set(rules, &mut bindings, &mut right_ctx_dfas);"),
        (LIB, "    mut bindings: Map<Var, Regex>,\n    right_ctx_dfas: &mut RightCtxDFAs<DfaStateIdx>,\n) -> DFA<DfaStateIdx, SemanticActionIdx> {",
         "    bindings: &mut Map<Var, Regex>,\n    right_ctx_dfas: &mut RightCtxDFAs<DfaStateIdx>,\n) -> DFA<DfaStateIdx, SemanticActionIdx> {"),
        (LIB, "                compile_single_rule(&mut nfa, lhs, rhs, &bindings, right_ctx_dfas);\n            }\n            RuleOrBinding::Binding",
         "                compile_single_rule(&mut nfa, lhs, rhs, bindings, right_ctx_dfas);\n            }\n            RuleOrBinding::Binding"),
    ], "rule-set-local lets leak into later rule sets"),
    "m23_tab_width_8": (["C06"], [(UTIL, "self.current_match_end.col += 4;", "self.current_match_end.col += 8;")], "tab counts 8 columns"),
    "m24_manual_clone": (["C15"], [(UTIL, "#[derive(Debug, Clone)]\npub struct Lexer<", "#[derive(Debug)]\npub struct Lexer<"),
                                   (UTIL, "impl<I: Iterator<Item = char> + Clone, T, S: Default, E, W> Lexer<'static, I, T, S, E, W> {\n    pub fn new_from_iter(",
                                    """impl<'input, I: Iterator<Item = char> + Clone, T, S: Clone, E, W> Clone
    for Lexer<'input, I, T, S, E, W>
{
    fn clone(&self) -> Self {
        Lexer {
            __state: self.__state,
            __done: self.__done,
            __initial_state: self.__initial_state,
            user_state: self.user_state.clone(),
            input: self.input,
            iter_loc: self.iter_loc,
            __iter: self.__iter.clone(),
            current_match_start: self.current_match_start,
            current_match_end: self.current_match_end,
            last_match: None,
        }
    }
}

impl<I: Iterator<Item = char> + Clone, T, S: Default, E, W> Lexer<'static, I, T, S, E, W> {
    pub fn new_from_iter(""")], "hand-written Clone drops the saved match"),
    "m25_direct_fail_keeps_rule_set": (["C08"], [(CG, "                self.0.__state = 0;\n                self.0.__initial_state = 0;\n", "                self.0.__state = 0;\n")],
                                       "in-place failure does not reset the rule set"),
    "m27_switch_keeps_initial_state": (["C03"], [(CG, "            self.0.__initial_state = self.0.__state;\n", "")],
                                       "switch does not record the new rule set as the one to return to"),
    "m28_fail_location_after_reset": (["C07"], [(CG, "                let location = self.match_loc().0;\n                self.reset_match();\n", "                self.reset_match();\n                let location = self.match_loc().0;\n")],
                                      "InvalidToken located at the end of the bad text"),
    "m29_saved_start_is_end": (["C06"], [(UTIL, "        self.last_match = Some((\n            self.current_match_start,", "        self.last_match = Some((\n            self.current_match_end,")],
                               "saved match start taken from the end location"),
    "m30_has_no_transitions_ignores_eoi": (["C01", "C05"], [(DFA, "            && self.any_transition.is_none()\n            && self.end_of_input_transition.is_none()", "            && self.any_transition.is_none()")],
                                           "states with only an end-of-input transition are dropped"),
    "m32_generator_end_minus_one": (["C18"], [(GEN, "                Some((start, _)) => Some((start, i)),", "                Some((start, _)) => Some((start, i - 1 + 1)),")],
                                    "(control) arithmetic on the end point"),
    "m33_next_skips_newline_col_reset": (["C06"], [(UTIL, "                    self.current_match_end.line += 1;\n                    self.current_match_end.col = 0;", "                    self.current_match_end.line += 1;")],
                                         "column not reset at a newline"),
    "m34_peek_consumes": (["C10", "C09"], [(UTIL, "        self.__iter.peek().copied()", "        self.__iter.next()")], "peek() consumes a character"),
    "m37_unknown_builtin_defaults": (["C17"], [(R2N, '.unwrap_or_else(|| panic!("Unknown builtin regex: {}", builtin.0))', ".unwrap_or(BuiltinCharRange::Ascii)")],
                                     "unknown built-in silently becomes $$ascii"),
    "m38_diff_accepts_star": (["C17"], [(R2N, """        Regex::ZeroOrMore(_) => {
            panic!("`*` cannot be used in char sets (`#`)");
        }""", """        Regex::ZeroOrMore(re) => regex_to_range_map(bindings, re),""")], "`#` accepts a starred operand"),
    "m40_star_builds_plus": (["C16", "C02"], [(AST, "            re = Regex::ZeroOrMore(Box::new(re));", "            re = Regex::OneOrMore(Box::new(re));")], "`*` parsed as `+`"),
}
MUTANTS["r06_revert_F6"] = (["C12"], [
    (CG, "fn #binary_search_fn_ident(c: char, table: &[(char, char)]) -> bool {", "fn binary_search(c: char, table: &[(char, char)]) -> bool {"),
    (CTX, '&format!("{}_BINARY_SEARCH", self.lexer_name),', '"binary_search",'),
    ("crates/lexgen/src/dfa/codegen/search_table.rs", '&format!("{}_RANGE_TABLE_{}", lexer_name, n_tables),', '&format!("RANGE_TABLE_{}", n_tables),'),
], "reverts fix commit 4636f65 (search table and helper names without the lexer prefix)")
MUTANTS["m45_add_dfa_predecessors_not_shifted"] = (["C03"], [(DFA, ".map(|pred| StateIdx(pred.0 + n_current_states))", ".map(|pred| StateIdx(pred.0))")],
    "predecessor sets of an appended rule set keep their local indices (wrong inlining decisions for later rule sets)")
MUTANTS["m46_add_dfa_eoi_shift_off_by_one"] = (["C03", "C05"], [(DFA, "new_end_of_input_transition = Some(StateIdx(next.0 + n_current_states));", "new_end_of_input_transition = Some(StateIdx(next.0 + n_current_states - 1));")],
    "end-of-input successors of an appended rule set are shifted by one less than everything else")
MUTANTS["m47_simplify_removes_initial"] = (["C03"], [(SIMP, "if state.has_no_transitions() && !state.initial {", "if state.has_no_transitions() {")],
    "simplify removes the initial state of an empty rule set too")
MUTANTS["m48_inline_any_narrower"] = (["C01", "C03"], [(CG, "            if states[*next_state].predecessors.len() == 1 {\n                generate_state(ctx, *next_state, &states[*next_state], states)", "            if states[*next_state].predecessors.len() == 1 && states[*next_state].accepting.is_empty() {\n                generate_state(ctx, *next_state, &states[*next_state], states)")],
    "the `_` successor is inlined under a narrower condition than the one that omits its arm")
MUTANTS["m49_diff_operands_swapped"] = (["C11"], [(R2N, """            let mut map1 = regex_to_range_map(bindings, re1);
            let map2 = regex_to_range_map(bindings, re2);
            map1.remove_ranges(&map2);""", """            let mut map1 = regex_to_range_map(bindings, re2);
            let map2 = regex_to_range_map(bindings, re1);
            map1.remove_ranges(&map2);""")], "`a # b` computes b minus a")
MUTANTS["m50_plus_with_skip_edge"] = (["C02"], [(R2N, """            nfa.add_empty_transition(current, re_init);
            nfa.add_empty_transition(re_cont, cont);
            nfa.add_empty_transition(re_cont, re_init);
        }

        Regex::ZeroOrOne""", """            nfa.add_empty_transition(current, re_init);
            nfa.add_empty_transition(current, cont);
            nfa.add_empty_transition(re_cont, cont);
            nfa.add_empty_transition(re_cont, re_init);
        }

        Regex::ZeroOrOne""")], "`+` also matches the empty string")
MUTANTS["m51_opt_without_skip"] = (["C02"], [(R2N, """            add_re(nfa, bindings, re, re_init, cont);
            nfa.add_empty_transition(current, cont);
            nfa.add_empty_transition(current, re_init);""", """            add_re(nfa, bindings, re, re_init, cont);
            nfa.add_empty_transition(current, re_init);""")], "`?` requires its operand")
MUTANTS["m52_set_range_ends_swapped"] = (["C02"], [(R2N, "nfa.add_range_transition(current, *range_start, *range_end, cont);", "nfa.add_range_transition(current, *range_end, *range_start, cont);")],
    "a range inside a set is added as (end, start)")
MUTANTS["m53_nfa_any_written_to_eoi_field"] = (["C02"], [("crates/lexgen/src/nfa.rs", "let not_exists = self.states[state.0].any_transitions.insert(next);", "let not_exists = self.states[state.0].end_of_input_transitions.insert(next);")],
    "NFA::add_any_transition stores the edge among the end-of-input edges")
MUTANTS["m54_concat_operands_swapped"] = (["C02"], [(R2N, """            add_re(nfa, bindings, re1, current, re1_cont);
            add_re(nfa, bindings, re2, re1_cont, cont);""", """            add_re(nfa, bindings, re2, current, re1_cont);
            add_re(nfa, bindings, re1, re1_cont, cont);""")], "concatenation in reverse order")
MUTANTS["m55_eoi_closure_not_queued"] = (["C05", "C02"], [(N2D, """                dfa.set_end_of_input_transition(current_dfa_state, dfa_state);
                work_list.push(closure);""", """                dfa.set_end_of_input_transition(current_dfa_state, dfa_state);""")],
    "the state reached on end of input is never processed (no accepting value)")
MUTANTS["m56_char_target_keyed_by_unclosed_set"] = (["C02"], [(N2D, """            let dfa_state = dfa_state_of_nfa_states(&mut dfa, &mut state_map, closure.clone());
            dfa.add_char_transition(current_dfa_state, char, dfa_state);""", """            let dfa_state =
                dfa_state_of_nfa_states(&mut dfa, &mut state_map, char_states.iter().copied().collect());
            dfa.add_char_transition(current_dfa_state, char, dfa_state);""")],
    "the target of a character transition is registered under the unclosed set while the closure is queued")
MUTANTS["m57_range_merge_keeps_second_only"] = (["C02"], [(N2D, "|states_1, states_2| states_1.extend(states_2.into_iter()),", "|states_1, states_2| *states_1 = states_2,")],
    "where two NFA ranges overlap, the merged piece keeps the targets of the later one only")
MUTANTS["m58_range_states_added_to_every_char"] = (["C02"], [(N2D, """                if range.contains(char) {
                    for range_state in &range.value {
                        char_states.insert(*range_state);
                    }
                }""", """                for range_state in &range.value {
                    char_states.insert(*range_state);
                }""")], "a character transition also gets the targets of ranges that do not contain the character")
MUTANTS["m59_any_set_also_gets_eoi_targets"] = (["C05", "C02"], [(N2D, """            any_transitions.extend(nfa.any_transitions(nfa_state));
""", """            any_transitions.extend(nfa.any_transitions(nfa_state));
            any_transitions.extend(nfa.end_of_input_transitions(nfa_state));
""")], "targets of `$` are also reached by consuming any character")
MUTANTS["m60_range_targets_without_any"] = (["C01", "C02"], [(N2D, """            for any_next in &any_transitions {
                range_states.insert(*any_next);
            }
""", "")], "a range transition no longer includes the targets of `_`")
MUTANTS["m61_any_into_chars_only_when_ranges_exist"] = (["C01", "C02"], [(N2D, """            // Same for '_' (match any character) transitions
            for any_next in &any_transitions {
                char_states.insert(*any_next);
            }
""", """            // Same for '_' (match any character) transitions
            if range_transitions.len() != 0 {
                for any_next in &any_transitions {
                    char_states.insert(*any_next);
                }
            }
""")], "`_` targets are added to a character's targets only when the state also has range transitions")
MUTANTS["m62_eoi_targets_of_accepting_members_only"] = (["C05", "C02"], [(N2D, """            end_of_input_transitions.extend(nfa.end_of_input_transitions(nfa_state));
""", """            if nfa.get_accepting_state(nfa_state).is_none() {
                end_of_input_transitions.extend(nfa.end_of_input_transitions(nfa_state));
            }
""")], "`$` transitions of accepting NFA states are not collected")
MUTANTS["m63_state_registered_before_surrogate_piece_is_dropped"] = (["C12"], [(N2D, """            let (range_start, range_end) = match clamp_to_chars(range.start, range.end) {
                Some(range) => range,
                None => continue,
            };

            let mut range_states: Set<NfaStateIdx> = range.value;
""", """            let clamped = clamp_to_chars(range.start, range.end);

            let mut range_states: Set<NfaStateIdx> = range.value;
"""), (N2D, """            let dfa_state = dfa_state_of_nfa_states(&mut dfa, &mut state_map, closure.clone());

            dfa_range_transitions.push(Range {""", """            let dfa_state = dfa_state_of_nfa_states(&mut dfa, &mut state_map, closure.clone());

            let (range_start, range_end) = match clamped {
                Some(range) => range,
                None => continue,
            };

            dfa_range_transitions.push(Range {""")],
    "the DFA state of a range piece is created before the piece is dropped for covering only surrogates: an "
    "orphan state, update_backtracks' assertion fails, the expansion panics")
REVERTS = {
    "r01_revert_F1": ("1a68785", ["C01", "C12"]),
    "r02_revert_F2": ("551ccb8", ["C04", "C12"]),
    "r03_revert_F3": ("03d69f5", ["C07"]),
    "r04_revert_F4": ("1f39231", ["C08"]),
    "r05_revert_F5": ("d819a83", ["C11"]),
    "r07_revert_F7": ("26f7588", ["C12"]),
    "r08_revert_F8": ("bd0162d", ["C18"]),
    "r09_revert_F9": ("02ee6c6", ["C04", "C13"]),
    "r10_revert_F10": ("7169761", ["C11", "C12"]),
}
BENIGN = {
    "b01_col_plus_4_spelled_out": ([(UTIL, "self.current_match_end.col += 4;", "self.current_match_end.col = self.current_match_end.col + 4;")], ""),
    "b02_helper_in_next": ([(UTIL, """                self.current_match_end.byte_idx += char.len_utf8();
                if char == '\\n' {""", """                self.advance_byte(char);
                if char == '\\n' {"""),
                            (UTIL, "    pub fn peek(&mut self) -> Option<char> {", """    fn advance_byte(&mut self, char: char) {
        self.current_match_end.byte_idx += char.len_utf8();
    }

    pub fn peek(&mut self) -> Option<char> {""")], "helper extracted in the runtime"),
    "b03_backtrack_if_let": ([(UTIL, """        match self.last_match.take() {
            None => {
                self.__state = 0;
                self.__initial_state = 0;
                Err(LexerError {
                    location: self.current_match_start,
                    kind: LexerErrorKind::InvalidToken,
                })
            }
            Some((match_start, iter, semantic_action, match_end)) => {
                self.__done = false;
                self.current_match_start = match_start;
                self.current_match_end = match_end;
                self.__iter = iter;
                self.iter_loc = match_end;
                Ok(semantic_action)
            }
        }""", """        if let Some((match_start, iter, semantic_action, match_end)) = self.last_match.take() {
            self.iter_loc = match_end;
            self.__iter = iter;
            self.current_match_end = match_end;
            self.current_match_start = match_start;
            self.__done = false;
            return Ok(semantic_action);
        }
        let location = self.current_match_start;
        self.__initial_state = 0;
        self.__state = 0;
        Err(LexerError {
            kind: LexerErrorKind::InvalidToken,
            location,
        })""")], "if-let, reordered independent statements"),
    "b04_rename_locals_backtracks": ([(BT, "let successor_backtrack = backtrack || dfa.is_accepting_state(state);", "let succ_bt = backtrack || dfa.is_accepting_state(state);"),
                                      (BT, "work_list.push((*next, successor_backtrack));", "work_list.push((*next, succ_bt));"),
                                      (BT, "work_list.push((next_range.value, successor_backtrack));", "work_list.push((next_range.value, succ_bt));"),
                                      (BT, "            work_list.push((next, successor_backtrack));\n        }\n\n        if let Some(next) = dfa.states[state.0].end_of_input_transition {\n            work_list.push((next, successor_backtrack));",
                                       "            work_list.push((next, succ_bt));\n        }\n\n        if let Some(next) = dfa.states[state.0].end_of_input_transition {\n            work_list.push((next, succ_bt));")], "renamed local"),
    "b05_guard_as_matches": ([(CG, "quote!((#range_start..=#range_end).contains(&#value))", "quote!(matches!(#value, #range_start..=#range_end))")], "range guard written with matches!"),
    "b06_set_based_backtracks": ([(BT, """        match visited.entry(state) {
            Entry::Occupied(mut entry) => {
                // The backtrack property only ever changes from `false` to `true`
                if *entry.get() || !backtrack {
                    continue;
                }
                entry.insert(true);
            }
            Entry::Vacant(entry) => {
                entry.insert(backtrack);
            }
        }
""", """        if !seen.insert((state, backtrack)) {
            continue;
        }
        match visited.entry(state) {
            Entry::Occupied(mut entry) => {
                if backtrack {
                    entry.insert(true);
                }
            }
            Entry::Vacant(entry) => {
                entry.insert(backtrack);
            }
        }
"""), (BT, "    let mut visited: Map<StateIdx, bool> = Default::default();\n", "    let mut visited: Map<StateIdx, bool> = Default::default();\n    let mut seen: crate::collections::Set<(StateIdx, bool)> = Default::default();\n")],
                                 "different but correct worklist (set of visited (state, flag) pairs)"),
    "b07_reorder_rule_sets_in_test": ([], "placeholder: rule-set declaration order is exercised by the rulesets witnesses"),
    "b10_iter_ctor_other_input_const": ([(UTIL, "            __state: 0,\n            __done: false,\n            __initial_state: 0,\n            user_state: state,\n            input: \"\",",
                                          "            __state: 0,\n            __done: false,\n            __initial_state: 0,\n            user_state: state,\n            input: \" \",")],
                                        "iterator constructors may store any string constant in `input` (read only by match_, documented unavailable)"),
    "b11_or_operands_swapped": ([(AST, "        re = Regex::Or(Box::new(re), Box::new(re2)); // left associative", "        re = Regex::Or(Box::new(re2), Box::new(re)); // left associative")],
                                "alternation is commutative: same language"),
    "b12_simplify_partition_point": ([(SIMP, """        let idx = match empty_states.binary_search_by(|(state_idx, _)| state_idx.cmp(t)) {
            Ok(idx) | Err(idx) => idx,
        };""", """        let idx = empty_states.partition_point(|(state_idx, _)| *state_idx < *t);""")],
                                     "partition_point instead of binary_search_by for the entry renumbering (same index)"),
    "b13_add_dfa_offset_alias": ([(DFA, "new_any_transition = Some(StateIdx(next.0 + n_current_states));", "let offset = n_current_states;\n                new_any_transition = Some(StateIdx(next.0 + offset));")],
                                 "a local alias for the offset in add_dfa"),
    "b14_inline_test_helper": ([
        (CG, "            if states[*next_state].predecessors.len() == 1 {\n                generate_state(ctx, *next_state, &states[*next_state], states)", "            if single_pred(&states[*next_state]) {\n                generate_state(ctx, *next_state, &states[*next_state], states)"),
        (CG, "        let next = if states[*next_state].predecessors.len() == 1 {", "        let next = if single_pred(&states[*next_state]) {"),
        (CG, "        let next = if states[next_state].predecessors.len() == 1 {", "        let next = if single_pred(&states[next_state]) {"),
        (CG, "fn generate_any_transition(", "fn single_pred(state: &State<Trans<SemanticActionIdx>, SemanticActionIdx>) -> bool {\n    state.predecessors.len() == 1\n}\n\nfn generate_any_transition("),
    ], "the inlining test moved into a helper used by the three transition generators"),
    "b15_or_second_init_chained": ([(R2N, """            nfa.add_empty_transition(current, re1_init);
            nfa.add_empty_transition(current, re2_init);""", """            nfa.add_empty_transition(current, re1_init);
            nfa.add_empty_transition(re1_init, re2_init);""")], "alternation: the second alternative's start is reached through the first one's (same language, same interface)"),
    "b16_star_exit_from_re_init": ([(R2N, """            nfa.add_empty_transition(current, cont);
            nfa.add_empty_transition(current, re_init);
            nfa.add_empty_transition(re_cont, cont);
            nfa.add_empty_transition(re_cont, re_init);""", """            nfa.add_empty_transition(current, re_init);
            nfa.add_empty_transition(re_init, cont);
            nfa.add_empty_transition(re_cont, re_init);""")], "a different but correct construction for `*`"),
    "b17_string_by_index": ([(R2N, """            let mut iter = str.chars().peekable();
            let mut current = current;
            while let Some(char) = iter.next() {
                let next = if iter.peek().is_some() {
                    nfa.new_state()
                } else {
                    cont
                };
                nfa.add_char_transition(current, char, next);
                current = next;
            }""", """            let chars: Vec<char> = str.chars().collect();
            let mut current = current;
            for (i, char) in chars.iter().enumerate() {
                let next = if i + 1 == chars.len() {
                    cont
                } else {
                    nfa.new_state()
                };
                nfa.add_char_transition(current, *char, next);
                current = next;
            }""")], "string literals expanded by index instead of peeking"),
    "b18_var_lookup_by_index": ([(R2N, """            let re = bindings
                .get(var)
                .unwrap_or_else(|| panic!("Unbound variable {:?}", var.0));

            add_re(nfa, bindings, re, current, cont);""", """            let re = &bindings[var];

            add_re(nfa, bindings, re, current, cont);""")], "variable lookup by indexing"),
    "b19_or_epsilon_cycle_through_current": ([(R2N, """            add_re(nfa, bindings, re2, re2_init, cont);
            nfa.add_empty_transition(current, re1_init);
            nfa.add_empty_transition(current, re2_init);""", """            add_re(nfa, bindings, re2, re2_init, cont);
            nfa.add_empty_transition(current, re1_init);
            nfa.add_empty_transition(re1_init, re2_init);
            nfa.add_empty_transition(re2_init, current);""")],
        "alternation with an empty-transition cycle current -> re1_init -> re2_init -> current: breaks the closed-fragment discipline but not the language in any context (the cycle's states are all reachable from `current` without input anyway); R-THOMPSON must fall back to composing the templates and stay silent"),
    "b20_eoi_closure_queued_only_when_new": ([(N2D, """                let dfa_state = dfa_state_of_nfa_states(&mut dfa, &mut state_map, closure.clone());
                dfa.set_end_of_input_transition(current_dfa_state, dfa_state);
                work_list.push(closure);""", """                let is_new = !state_map.contains_key(&closure);
                let dfa_state = dfa_state_of_nfa_states(&mut dfa, &mut state_map, closure.clone());
                dfa.set_end_of_input_transition(current_dfa_state, dfa_state);
                if is_new {
                    work_list.push(closure);
                }""")], "a target set is queued only when it was not registered before (it was queued when it was registered)"),
    "b21_state_map_none_arm_unreachable": ([(N2D, """            None => {
                let dfa_state = dfa.new_state();
                state_map.insert(current_nfa_states.clone(), dfa_state);
                dfa_state
            }
            Some(dfa_state) => *dfa_state,""", """            None => unreachable!("every queued set is registered"),
            Some(dfa_state) => *dfa_state,""")], "the dead `None` arm of the state-map lookup made explicit"),
    "b22_eoi_targets_collected_by_loop": ([(N2D, """            end_of_input_transitions.extend(nfa.end_of_input_transitions(nfa_state));
""", """            for next in nfa.end_of_input_transitions(nfa_state) {
                end_of_input_transitions.insert(next);
            }
""")], "end-of-input targets collected with a loop and insert instead of extend"),
    "b08_eoi_action_block": ([(CG, "        self.0.__done = true; // don't handle end-of-input again\n        #end_of_input_action", "        self.0.__done = true;\n        { #end_of_input_action }")], "extra block around the end-of-input action"),
    "b09_generator_match_style": ([(GEN, """        } else if let Some(range) = current_range.take() {
            ranges.push(range);
        }""", """        } else {
            match current_range.take() {
                Some(range) => ranges.push(range),
                None => {}
            }
        }""")], "match instead of if-let in the generator"),
}


def sh(*args, **kw):
    return subprocess.run(args, check=kw.pop("check", True), stdout=subprocess.PIPE,
                          stderr=subprocess.STDOUT, universal_newlines=True, **kw)


def main():
    shutil.rmtree(SCRATCH, ignore_errors=True)
    sh("git", "-C", REPO, "worktree", "prune")
    sh("git", "-C", REPO, "worktree", "add", "--detach", SCRATCH, "HEAD")
    index = {}
    try:
        for kind, table in (("mutants", MUTANTS), ("benign", BENIGN)):
            out = os.path.join(HERE, kind)
            os.makedirs(out, exist_ok=True)
            for name, spec in sorted(table.items()):
                if kind == "mutants":
                    expect, edits, note = spec
                else:
                    edits, note = spec
                    expect = []
                if not edits:
                    continue
                sh("git", "-C", SCRATCH, "checkout", "--", ".")
                for f, old, new in edits:
                    p = os.path.join(SCRATCH, f)
                    s = open(p).read()
                    if s.count(old) != 1:
                        print("ANCHOR PROBLEM in %s: %s occurs %d times in %s" % (name, old[:50], s.count(old), f))
                        sys.exit(1)
                    open(p, "w").write(s.replace(old, new))
                d = sh("git", "-C", SCRATCH, "diff").stdout
                assert d.strip(), name
                with open(os.path.join(out, name + ".patch"), "w") as fh:
                    fh.write(d)
                index[name] = {"kind": kind, "expect": expect, "note": note}
        out = os.path.join(HERE, "mutants")
        for name, (commit, expect) in sorted(REVERTS.items()):
            d = sh("git", "-C", REPO, "show", "-R", "--format=", commit).stdout
            with open(os.path.join(out, name + ".patch"), "w") as fh:
                fh.write(d)
            index[name] = {"kind": "mutants", "expect": expect, "note": "reverts fix commit " + commit}
    finally:
        sh("git", "-C", REPO, "worktree", "remove", "--force", SCRATCH, check=False)
        shutil.rmtree(SCRATCH, ignore_errors=True)
    with open(os.path.join(HERE, "index.json"), "w") as f:
        json.dump(index, f, indent=1, sort_keys=True)
    print("wrote %d patches" % len(index))


if __name__ == "__main__":
    main()
