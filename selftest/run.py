#!/usr/bin/env python3
"""Self-test of the checks: applies each patch of selftest/{mutants,benign} (and of seeded/*/patch.diff
with --seeded) to a scratch worktree of /repo outside /repo and /verif, runs the checks against it
(VERIF_REPO), and records which properties report a violation.

    selftest/run.py [--jobs N] [--tests] [--seeded] [names...]

Mutants must be reported by every property listed in their `expect`; benign edits by none.
Scratch worktrees and their fact bases are removed at the end. Evidence files are written to a
private directory (VERIF_EVIDENCE_DIR) so the committed evidence is not touched.
"""
import argparse
import concurrent.futures
import glob
import json
import os
import shutil
import subprocess
import sys
import time

HERE = os.path.dirname(os.path.abspath(__file__))
VERIF = os.path.dirname(HERE)
REPO = "/repo"
SLOTS = "/tmp/lexlint-selftest"
PROPS = ["C%02d" % i for i in range(1, 19)]


def sh(args, **kw):
    return subprocess.run(args, stdout=subprocess.PIPE, stderr=subprocess.STDOUT,
                          universal_newlines=True, **kw)


def run_one(slot, name, patch, run_tests, props):
    wt = os.path.join(SLOTS, "slot%d" % slot, "repo")
    ev = os.path.join(SLOTS, "slot%d" % slot, "evidence")
    os.makedirs(ev, exist_ok=True)
    sh(["git", "-C", wt, "checkout", "--", "."])
    sh(["git", "-C", wt, "clean", "-fdq", "-e", "Cargo.lock"])
    r = sh(["git", "-C", wt, "apply", patch])
    if r.returncode != 0:
        return name, {"error": "patch does not apply: " + r.stdout[-300:]}
    res = {"violations": {}, "known": {}, "wall": {}}
    if run_tests:
        t0 = time.time()
        try:
            r = sh(["timeout", "-k", "5", "420", "cargo", "test", "--workspace", "--no-fail-fast",
                    "--offline"], cwd=wt,
                   env=dict(os.environ, CARGO_NET_OFFLINE="true",
                            CARGO_TARGET_DIR=os.path.join(SLOTS, "slot%d" % slot, "target")), timeout=600)
            out, rc = r.stdout, r.returncode
        except subprocess.TimeoutExpired:
            out, rc = "", 124
        passed = sum(int(l.split("ok. ")[1].split(" passed")[0]) for l in out.splitlines()
                     if l.startswith("test result: ok."))
        failed = [l for l in out.splitlines() if l.startswith("test result: FAILED") or " FAILED" in l
                  or l.startswith("error")]
        if rc == 124:
            failed.append("test suite did not finish within 420 s (a test hangs)")
            sh(["pkill", "-9", "-f", os.path.join(SLOTS, "slot%d" % slot, "target")])
        res["tests"] = {"passed": passed, "failed_lines": failed[:6], "rc": rc,
                        "wall": round(time.time() - t0, 1)}
    env = dict(os.environ, VERIF_REPO=wt, VERIF_EVIDENCE_DIR=ev, CARGO_NET_OFFLINE="true")
    for p in props:
        t0 = time.time()
        try:
            r = sh([os.path.join(VERIF, "lexlint-run"), "check", p, "--tier", "quick"], env=env,
                   timeout=3600)
            out = r.stdout
            rc = r.returncode
        except subprocess.TimeoutExpired:
            out, rc = "TIMEOUT", 3
        res["wall"][p] = round(time.time() - t0, 1)
        vio = []
        lines = out.splitlines()
        for i, l in enumerate(lines):
            if l.startswith("VIOLATION"):
                vio.append(lines[i - 1].strip()[:300] if i > 0 else l)
        if rc not in (0, 1):
            vio.append("check exited with %s: %s" % (rc, out[-300:]))
        if vio:
            res["violations"][p] = vio
    return name, res


def main():
    ap = argparse.ArgumentParser()
    ap.add_argument("names", nargs="*")
    ap.add_argument("--jobs", type=int, default=4)
    ap.add_argument("--tests", action="store_true")
    ap.add_argument("--seeded", action="store_true")
    ap.add_argument("--props", default=",".join(PROPS))
    ap.add_argument("--patches", default=None,
                    help="glob of patch files to treat as behaviour-preserving edits (kind benign)")
    ap.add_argument("--out", default=os.path.join(HERE, "results.json"))
    a = ap.parse_args()
    index = json.load(open(os.path.join(HERE, "index.json")))
    items = []
    for name, meta in sorted(index.items()):
        items.append((name, os.path.join(HERE, meta["kind"], name + ".patch"), meta))
    # behaviour-preserving refactorings written by sub-agents (selftest/refactors): must stay silent
    for f in sorted(glob.glob(os.path.join(HERE, "refactors", "*.patch"))):
        nm = os.path.basename(f)[:-6]
        items.append((nm, f, {"kind": "benign", "expect": [],
                              "note": "refactoring written by a sub-agent (selftest/refactors/README%s_%s.md)" % (
                                  nm[3] if nm[3:4].isdigit() else "",
                                  nm.split("_")[1])}))
    if a.seeded:
        items = []
        for d in sorted(glob.glob(os.path.join(VERIF, "seeded", "*"))):
            mp = os.path.join(d, "meta.json")
            if os.path.exists(mp):
                meta = json.load(open(mp))
                items.append(("seeded_" + os.path.basename(d), os.path.join(d, "patch.diff"),
                              {"kind": "seeded", "expect": [meta.get("property")], "note": meta.get("summary", "")}))
    if a.patches:
        items = []
        for f in sorted(glob.glob(a.patches)):
            nm = "ref_" + "_".join(f.split("/")[-2:]).replace(".diff", "").replace("-out", "")
            items.append((nm, f, {"kind": "benign", "expect": [], "note": "refactoring written by a sub-agent"}))
    if a.names:
        items = [it for it in items if any(n in it[0] for n in a.names)]
    props = a.props.split(",")
    shutil.rmtree(SLOTS, ignore_errors=True)
    sh(["git", "-C", REPO, "worktree", "prune"])
    jobs = max(1, min(a.jobs, len(items)))
    for s in range(jobs):
        wt = os.path.join(SLOTS, "slot%d" % s, "repo")
        os.makedirs(os.path.dirname(wt), exist_ok=True)
        r = sh(["git", "-C", REPO, "worktree", "add", "--detach", wt, "HEAD"])
        if r.returncode != 0:
            print(r.stdout)
            sys.exit(2)
        shutil.copy(os.path.join(REPO, "Cargo.lock"), os.path.join(wt, "Cargo.lock"))
    results = {}
    if os.path.exists(a.out) and (a.names or a.seeded or a.patches):
        results = json.load(open(a.out))
    try:
        import queue
        slots = queue.Queue()
        for s in range(jobs):
            slots.put(s)

        def work(it):
            s = slots.get()
            try:
                t0 = time.time()
                name, res = run_one(s, it[0], it[1], a.tests, props)
                res["expect"] = it[2].get("expect", [])
                res["kind"] = it[2]["kind"]
                res["note"] = it[2].get("note", "")
                res["total_wall"] = round(time.time() - t0, 1)
                return name, res
            finally:
                slots.put(s)
        with concurrent.futures.ThreadPoolExecutor(jobs) as ex:
            futs = [ex.submit(work, it) for it in items]
            for fut in concurrent.futures.as_completed(futs):
                try:
                    name, res = fut.result()
                except Exception as e:      # keep going: one broken item must not lose the others
                    print("ERROR in worker: %r" % (e,), flush=True)
                    continue
                results[name] = res
                caught = sorted(res.get("violations", {}))
                exp = res.get("expect", [])
                if res.get("error"):
                    verdict = "ERROR " + res["error"]
                elif res["kind"] == "benign":
                    verdict = "OK (silent)" if not caught else "FALSE ALARM " + ",".join(caught)
                else:
                    missed = [p for p in exp if p not in caught]
                    verdict = ("CAUGHT by " + ",".join(caught)) if caught else "MISSED"
                    if caught and missed:
                        verdict += "  (expected also: %s)" % ",".join(missed)
                t = res.get("tests")
                ts = ""
                if t:
                    ts = " tests: %d passed%s" % (t["passed"], " FAIL" if t["rc"] != 0 else "")
                print("%-40s %s%s  [%.0fs]" % (name, verdict, ts, res.get("total_wall", 0)), flush=True)
                with open(a.out, "w") as f:
                    json.dump(results, f, indent=1, sort_keys=True)
    finally:
        for s in range(jobs):
            wt = os.path.join(SLOTS, "slot%d" % s, "repo")
            sh(["git", "-C", REPO, "worktree", "remove", "--force", wt])
        shutil.rmtree(SLOTS, ignore_errors=True)
        sh(["git", "-C", REPO, "worktree", "prune"])
        for d in glob.glob(os.path.join(VERIF, ".work", "target-*")):
            if os.path.basename(d) != "target-repo":
                shutil.rmtree(d, ignore_errors=True)
        # fact bases of scratch trees
        for d in glob.glob(os.path.join(VERIF, ".work", "facts", "*")):
            rp = os.path.join(d, "repo", "REPO_PATH")
            try:
                if open(rp).read().startswith(SLOTS):
                    shutil.rmtree(d, ignore_errors=True)
            except OSError:
                pass


if __name__ == "__main__":
    main()
