#!/usr/bin/env python3
"""selftest/register_seed.py <id> <dir with patch.diff + demo> <verify json> <property> <summary> <needs>"""
import json, os, shutil, sys
sid, src, vjson, prop, summary, needs = sys.argv[1:7]
dst = os.path.join(os.path.dirname(os.path.dirname(os.path.abspath(__file__))), "seeded", sid)
os.makedirs(dst, exist_ok=True)
for f in os.listdir(src):
    if f == "patch.diff" or f.endswith(".rs"):
        shutil.copy(os.path.join(src, f), os.path.join(dst, f))
txt = open(vjson).read()
v = json.loads(txt[txt.index("{"):])
assert v["confirmed"], v
meta = {"id": sid, "property": prop, "summary": summary, "needs_to_manifest": needs,
        "origin": "written by a sub-agent given only the property text and a scratch worktree",
        "confirmed_by": "selftest/verify_seed.py in a scratch worktree of /repo HEAD",
        "what_was_run": {
            "demo on original code (cargo test -p lexgen --test seed_demo --offline)": v["demo_on_original"],
            "demo with the change": {k: v["demo_with_change"][k] for k in ("rc", "passed", "failed")},
            "repository test suite with the change (cargo test --workspace --offline)": v["suite_with_change"]},
        "demo": [f for f in os.listdir(dst) if f.endswith(".rs")],
        "demo_placement": "crates/lexgen/tests/<file>"}
json.dump(meta, open(os.path.join(dst, "meta.json"), "w"), indent=1)
print("registered", dst)
