#!/usr/bin/env python3
"""Confirms a seeded change: in a scratch worktree of /repo (outside /repo and /verif, removed
afterwards) the demonstration passes on the original code, fails with the change, and the
repository's own test suite still passes with the change.

    selftest/verify_seed.py <dir with patch.diff and demo file> [--keep]
Prints a JSON summary (also usable as the "what you ran" part of meta.json).
"""
import json
import os
import shutil
import subprocess
import sys

REPO = "/repo"


def sh(args, cwd=None, env=None, timeout=3600):
    r = subprocess.run(args, cwd=cwd, env=env, stdout=subprocess.PIPE, stderr=subprocess.STDOUT,
                       universal_newlines=True, timeout=timeout)
    return r.returncode, r.stdout


def counts(out):
    passed = failed = 0
    for l in out.splitlines():
        if l.startswith("test result:"):
            try:
                passed += int(l.split(" passed")[0].rsplit(" ", 1)[1])
                failed += int(l.split(" failed")[0].rsplit(" ", 1)[1])
            except (ValueError, IndexError):
                pass
    return passed, failed


def main():
    d = os.path.abspath(sys.argv[1])
    name = os.path.basename(d.rstrip("/"))
    wt = "/tmp/seedchk-%s/repo" % name
    tgt = "/tmp/seedchk-%s/target" % name
    shutil.rmtree(os.path.dirname(wt), ignore_errors=True)
    os.makedirs(os.path.dirname(wt))
    sh(["git", "-C", REPO, "worktree", "prune"])
    rc, out = sh(["git", "-C", REPO, "worktree", "add", "--detach", wt, "HEAD"])
    assert rc == 0, out
    shutil.copy(os.path.join(REPO, "Cargo.lock"), wt)
    env = dict(os.environ, CARGO_NET_OFFLINE="true", CARGO_TARGET_DIR=tgt)
    demos = [f for f in os.listdir(d) if f.endswith(".rs")]
    assert len(demos) >= 1, "no demo .rs file"
    res = {"seed": name, "demo_files": demos}
    try:
        append_to = None
        inverted = "--inverted" in sys.argv
        if "--append-to" in sys.argv:
            append_to = sys.argv[sys.argv.index("--append-to") + 1]
            pkg = sys.argv[sys.argv.index("--pkg") + 1]
            target = os.path.join(wt, append_to)
            orig_text = open(target).read()

            def place():
                with open(target, "a") as fh:
                    for f in demos:
                        fh.write("\n" + open(os.path.join(d, f)).read())

            def unplace():
                cur = open(target).read()
                idx = cur.find("\n" + open(os.path.join(d, demos[0])).read())
                open(target, "w").write(cur[:idx] if idx >= 0 else cur)
            args = ["cargo", "test", "--offline", "-p", pkg]
        else:
            def place():
                for f in demos:
                    shutil.copy(os.path.join(d, f), os.path.join(wt, "crates/lexgen/tests", f))

            def unplace():
                for f_ in demos:
                    os.remove(os.path.join(wt, "crates/lexgen/tests", f_))
            tests = [f[:-3] for f in demos if not f.endswith("_twin.rs")] if inverted else [f[:-3] for f in demos]
            args = ["cargo", "test", "--offline", "-p", "lexgen"]
            for t in tests:
                args += ["--test", t]
        place()
        rc, out = sh(args, cwd=wt, env=env)
        p, f = counts(out)
        res["demo_on_original"] = {"rc": rc, "passed": p, "failed": f}
        unplace()
        rc, out = sh(["git", "-C", wt, "apply", os.path.join(d, "patch.diff")])
        res["patch_applies"] = rc == 0
        if rc != 0:
            res["apply_error"] = out[-400:]
        place()
        rc, out = sh(args, cwd=wt, env=env)
        p, f = counts(out)
        res["demo_with_change"] = {"rc": rc, "passed": p, "failed": f,
                                   "tail": [l for l in out.splitlines() if "panicked" in l or "FAILED" in l][:6]}
        unplace()
        rc, out = sh(["cargo", "test", "--workspace", "--no-fail-fast", "--offline"], cwd=wt, env=env)
        p, f = counts(out)
        res["suite_with_change"] = {"rc": rc, "passed": p, "failed": f}
        if inverted:
            # the demonstration is an ill-formed definition: it must be rejected (not compile) on the
            # original code and be accepted with the change
            res["inverted"] = True
            res["confirmed"] = (res["patch_applies"] and res["demo_on_original"]["rc"] != 0
                                and res["demo_with_change"]["rc"] == 0
                                and res["suite_with_change"]["rc"] == 0
                                and res["suite_with_change"]["passed"] == 119)
        else:
            res["confirmed"] = (res["patch_applies"] and res["demo_on_original"]["rc"] == 0
                                and res["demo_on_original"]["passed"] > 0
                                and res["demo_with_change"]["rc"] != 0
                                and res["suite_with_change"]["rc"] == 0
                                and res["suite_with_change"]["passed"] == 119)
    finally:
        if "--keep" not in sys.argv:
            sh(["git", "-C", REPO, "worktree", "remove", "--force", wt])
            shutil.rmtree(os.path.dirname(wt), ignore_errors=True)
            sh(["git", "-C", REPO, "worktree", "prune"])
    print(json.dumps(res, indent=1))
    return 0 if res.get("confirmed") else 1


if __name__ == "__main__":
    sys.exit(main())
