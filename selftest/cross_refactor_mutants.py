#!/usr/bin/env python3
"""Detection after refactoring: for every refactoring patch of selftest/refactors*/ and every mutant of
selftest/make_mutants.py whose edited text still exists in the refactored file, apply both to a scratch
worktree of /repo (under /tmp, removed afterwards) and run the source rules (R-* on the macro crate).
Prints, per combination, the rules that report a violation - the point being that the rules that were
made tolerant of the refactoring still name the defect.

    selftest/cross_refactor_mutants.py [substring filter]
"""
import glob, os, subprocess, sys, json, concurrent.futures, queue, importlib.util
HERE = os.path.dirname(os.path.abspath(__file__))
VERIF = os.path.dirname(HERE)
spec = importlib.util.spec_from_file_location("mm", os.path.join(HERE, "make_mutants.py"))
mm = importlib.util.module_from_spec(spec)
sys.argv = ["x"]
spec.loader.exec_module(mm)
MUT = mm.MUTANTS
REFS = sorted(glob.glob(os.path.join(HERE, 'refactors*', '*.patch')))
N = 6
slots = queue.Queue()
for i in range(N):
    wt = '/tmp/lexlint-cross/wt%d' % i
    if not os.path.isdir(wt):
        os.makedirs('/tmp/lexlint-cross', exist_ok=True)
        subprocess.run(['git', '-C', '/repo', 'worktree', 'add', '--detach', wt, 'HEAD'], stdout=subprocess.DEVNULL, stderr=subprocess.DEVNULL)
        subprocess.run(['cp', '/repo/Cargo.lock', wt + '/Cargo.lock'])
    slots.put(wt)
jobs = []
FILTER = sys.argv[1:] if False else []
for rp in REFS:
    touched = set()
    for l in open(rp):
        if l.startswith('+++ b/'):
            touched.add(l[6:].strip())
    for mn, (expect, edits, note) in sorted(MUT.items()):
        if not edits or not all(f in touched for f, o, n in edits):
            continue
        jobs.append((rp, mn, edits))

def work(job):
    rp, mn, edits = job
    wt = slots.get()
    try:
        subprocess.run(['git', '-C', wt, 'checkout', '--', '.'])
        r = subprocess.run(['git', '-C', wt, 'apply', rp], stdout=subprocess.PIPE, stderr=subprocess.STDOUT)
        if r.returncode != 0:
            return job, 'REF APPLY FAILED'
        for f, old, new in edits:
            p = os.path.join(wt, f)
            s = open(p).read()
            if s.count(old) != 1:
                return job, None      # anchor gone: mutant not applicable to this refactoring
            open(p, 'w').write(s.replace(old, new))
        env = dict(os.environ, VERIF_REPO=wt, VERIF_EVIDENCE_DIR='/tmp/lexlint-cross/ev', CARGO_NET_OFFLINE='true')
        r = subprocess.run(['python3', os.path.join(HERE, 'source_rules.py')], env=env, stdout=subprocess.PIPE, stderr=subprocess.STDOUT, universal_newlines=True)
        return job, r.stdout
    finally:
        subprocess.run(['git', '-C', wt, 'checkout', '--', '.'])
        slots.put(wt)

print(len(jobs), 'combinations to try')
with concurrent.futures.ThreadPoolExecutor(N) as ex:
    for (rp, mn, edits), out in ex.map(work, jobs):
        if out is None:
            continue
        rules = sorted({l.split(':')[0] for l in out.splitlines() if l.startswith(('R-', 'FLOOR'))})
        err = [l for l in out.splitlines() if 'Traceback' in l or 'Error' in l][:2]
        print(os.path.basename(rp)[:-6], mn, rules or 'SILENT', err or '', flush=True)

for i in range(N):
    subprocess.run(['git', '-C', '/repo', 'worktree', 'remove', '--force', '/tmp/lexlint-cross/wt%d' % i])
subprocess.run(['git', '-C', '/repo', 'worktree', 'prune'])
import shutil
shutil.rmtree('/tmp/lexlint-cross', ignore_errors=True)
