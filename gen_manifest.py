#!/usr/bin/env python3
"""Regenerates MANIFEST.json from lexlint/props.py (run after changing which properties are claimed)."""
import json
import os
import sys

HERE = os.path.dirname(os.path.abspath(__file__))
sys.path.insert(0, HERE)
from lexlint import props  # noqa: E402

DESIGN_REF = {p: "DESIGN.md section 3, %s" % p for p in props.PROPS}
ALL = [json.loads(l)["id"] for l in open(os.path.join(HERE, "properties.jsonl"))]

checks = []
for pid in ALL:
    if pid not in props.PROPS:
        continue
    s = props.PROPS[pid]
    checks.append({
        "property_id": pid,
        "quick_cmd": "./lexlint-run check %s --tier quick" % pid,
        "thorough_cmd": "./lexlint-run check %s --tier thorough" % pid,
        "evidence_file": "/verif/evidence/%s.json" % pid,
        "replay_cmd_template": "./lexlint-run explain {path}",
        "engine": "lexlint",
        "level_claimed": {"category": s["level"], "text": s["explanation"],
                          "design_ref": DESIGN_REF[pid]},
        "level_note": "; ".join(s.get("trusted_base", []) + s.get("assumptions", []) + [
            "rustc nightly's type checker and MIR; lexlint's abstract interpreter and call models"]),
        "technique": "static analysis: " + s["technique"],
    })

NA = getattr(props, "NOT_APPLICABLE", {})
na = []
for pid in ALL:
    if pid not in props.PROPS:
        na.append({"property_id": pid,
                   "reason": NA.get(pid, "check under construction (DESIGN.md section 9): not yet claimed")})

manifest = {
    "version": 1,
    "setup_cmd": "./setup.sh",
    "hooks": {
        "guard": "lexgen_verif",
        "enable": "no hooks are needed: every fact is read from the type-checked program and its MIR "
                  "by tools/mirdump (RUSTC_WORKSPACE_WRAPPER under cargo +nightly check)",
        "baseline_off_cmd": "cd /repo && cargo test --workspace --no-fail-fast --offline",
        "source_commits": [],
        "add_only": True,
    },
    "engines": [
        {"name": "mirdump", "path": "tools/mirdump", "serves_properties": sorted(props.PROPS),
         "kind_free_text": "rustc_private driver: dumps MIR, statics, ADTs, impls of every workspace "
                           "crate and witness as JSON facts"},
        {"name": "lexlint", "path": "lexlint", "serves_properties": sorted(props.PROPS),
         "kind_free_text": "Python: path-sensitive abstract interpreter over MIR (segx), LTS extraction "
                           "from generated lexers, rule catalogue, reference semantics + bisimulation "
                           "for witness definitions"},
    ],
    "checks": checks,
    "not_applicable": na,
    "notes": "Technique family: static analysis only (DESIGN.md). Known findings: known_findings.jsonl.",
}
with open(os.path.join(HERE, "MANIFEST.json"), "w") as f:
    json.dump(manifest, f, indent=1)
print("claimed:", [c["property_id"] for c in checks])
print("not claimed:", [n["property_id"] for n in na])
