//! mirdump: a rustc driver that type-checks a crate exactly like rustc does and then writes the
//! resolved program (MIR of every local body, statics, ADTs, impls) as one JSON fact file.
//!
//! Used as `RUSTC_WORKSPACE_WRAPPER` (first argument is the path of the real rustc, dropped) or
//! directly in place of `rustc`.
//!
//! Environment:
//!   MIRDUMP_OUT   directory for fact files (no dump if unset)
//!   MIRDUMP_NAME  file stem to use (default: <crate>-<metadata hash or pid>)
//!   MIRDUMP_STOP  if set, stop compilation after analysis (no codegen)
#![feature(rustc_private)]
extern crate rustc_abi;
extern crate rustc_ast;
extern crate rustc_driver;
extern crate rustc_hir;
extern crate rustc_interface;
extern crate rustc_middle;
extern crate rustc_span;

use rustc_driver::Compilation;
use rustc_hir::def::{DefKind, Res};
use rustc_hir::def_id::{DefId, LOCAL_CRATE};
use rustc_middle::mir::interpret::{GlobalAlloc, Scalar};
use rustc_middle::mir::*;
use rustc_middle::ty::{self, TyCtxt, TypingEnv};
use rustc_span::Span;
use std::fmt::Write as _;

fn esc(s: &str) -> String {
    let mut o = String::with_capacity(s.len() + 2);
    o.push('"');
    for c in s.chars() {
        match c {
            '"' => o.push_str("\\\""),
            '\\' => o.push_str("\\\\"),
            '\n' => o.push_str("\\n"),
            '\t' => o.push_str("\\t"),
            '\r' => o.push_str("\\r"),
            c if (c as u32) < 0x20 => {
                let _ = write!(o, "\\u{:04x}", c as u32);
            }
            c => o.push(c),
        }
    }
    o.push('"');
    o
}

struct Cx<'tcx> {
    tcx: TyCtxt<'tcx>,
}

impl<'tcx> Cx<'tcx> {
    fn span(&self, sp: Span) -> String {
        // Location of the outermost call site, so that code produced by a macro is attributed to
        // the macro invocation in the user's file.
        let sp = sp.source_callsite();
        self.tcx.sess.source_map().span_to_diagnostic_string(sp)
    }

    fn line(&self, sp: Span) -> usize {
        let sp = sp.source_callsite();
        self.tcx.sess.source_map().lookup_char_pos(sp.lo()).line
    }

    fn place(&self, body: &Body<'tcx>, p: &Place<'tcx>) -> String {
        let tcx = self.tcx;
        let mut s = format!("{{\"l\":{},\"p\":[", p.local.as_usize());
        let mut pty = PlaceTy::from_ty(body.local_decls[p.local].ty);
        let mut first = true;
        for elem in p.projection.iter() {
            if !first {
                s.push(',');
            }
            first = false;
            match elem {
                ProjectionElem::Deref => s.push_str("\"*\""),
                ProjectionElem::Field(f, _) => {
                    let name = match pty.ty.kind() {
                        ty::Adt(adt, _) => {
                            let v = match pty.variant_index {
                                Some(v) => v,
                                None => rustc_abi::FIRST_VARIANT,
                            };
                            let vd = adt.variant(v);
                            format!(
                                "{}::{}.{}",
                                tcx.def_path_str(adt.did()),
                                vd.name,
                                vd.fields[f].name
                            )
                        }
                        _ => format!("#{}", f.as_usize()),
                    };
                    let _ = write!(s, "{{\"f\":{},\"i\":{}}}", esc(&name), f.as_usize());
                }
                ProjectionElem::Downcast(name, v) => {
                    let n = match name {
                        Some(n) => n.to_string(),
                        None => match pty.ty.kind() {
                            ty::Adt(adt, _) => adt.variant(v).name.to_string(),
                            _ => String::new(),
                        },
                    };
                    let _ = write!(s, "{{\"as\":{},\"v\":{}}}", esc(&n), v.as_usize());
                }
                ProjectionElem::Index(l) => {
                    let _ = write!(s, "{{\"idx\":{}}}", l.as_usize());
                }
                other => {
                    let _ = write!(s, "{{\"other\":{}}}", esc(&format!("{:?}", other)));
                }
            }
            pty = pty.projection_ty(tcx, elem);
        }
        s.push_str("]}");
        s
    }

    fn constant(&self, body: &Body<'tcx>, c: &ConstOperand<'tcx>) -> String {
        let tcx = self.tcx;
        let ty = c.const_.ty();
        let env = TypingEnv::post_analysis(tcx, body.source.def_id());
        if let ty::FnDef(did, args) = ty.kind() {
            return format!(
                "{{\"fn\":{},\"path\":{}}}",
                esc(&tcx.def_path_str_with_args(*did, args)),
                esc(&tcx.def_path_str(*did))
            );
        }
        // Reference to a static item
        if let Const::Val(ConstValue::Scalar(Scalar::Ptr(ptr, _)), _) = c.const_ {
            if let Some(GlobalAlloc::Static(did)) =
                tcx.try_get_global_alloc(ptr.provenance.alloc_id())
            {
                return format!(
                    "{{\"static\":{},\"ty\":{}}}",
                    esc(&tcx.def_path_str(did)),
                    esc(&ty.to_string())
                );
            }
        }
        if let Some(si) = c.const_.try_eval_scalar_int(tcx, env) {
            let v = si.to_bits_unchecked();
            return format!("{{\"int\":{},\"ty\":{}}}", v, esc(&ty.to_string()));
        }
        // Small plain-data constants (e.g. `Loc::ZERO`): the evaluated bytes
        let mut extra = String::new();
        if let Ok(val) = c.const_.eval(tcx, env, c.span) {
            match val {
                ConstValue::ZeroSized => extra.push_str(",\"bytes\":[]"),
                ConstValue::Indirect { alloc_id, offset } => {
                    if let Ok(layout) = tcx.layout_of(env.as_query_input(ty)) {
                        let size = layout.size.bytes() as usize;
                        if let GlobalAlloc::Memory(alloc) = tcx.global_alloc(alloc_id) {
                            let alloc = alloc.inner();
                            let off = offset.bytes() as usize;
                            if size <= 64
                                && off + size <= alloc.len()
                                && alloc.provenance().ptrs().is_empty()
                            {
                                let bytes = alloc
                                    .inspect_with_uninit_and_ptr_outside_interpreter(off..off + size);
                                let bs: Vec<String> = bytes.iter().map(|b| b.to_string()).collect();
                                let _ = write!(extra, ",\"bytes\":[{}]", bs.join(","));
                            }
                        }
                    }
                }
                _ => {}
            }
        }
        format!(
            "{{\"const\":{},\"ty\":{}{}}}",
            esc(&format!("{}", c.const_)),
            esc(&ty.to_string()),
            extra
        )
    }

    fn operand(&self, body: &Body<'tcx>, o: &Operand<'tcx>) -> String {
        match o {
            Operand::Copy(p) => format!("{{\"copy\":{}}}", self.place(body, p)),
            Operand::Move(p) => format!("{{\"move\":{}}}", self.place(body, p)),
            Operand::Constant(c) => self.constant(body, c),
            #[allow(unreachable_patterns)]
            other => format!("{{\"opother\":{}}}", esc(&format!("{:?}", other))),
        }
    }

    fn rvalue(&self, body: &Body<'tcx>, r: &Rvalue<'tcx>) -> String {
        let tcx = self.tcx;
        match r {
            Rvalue::Use(o, _) => format!("{{\"k\":\"use\",\"o\":{}}}", self.operand(body, o)),
            Rvalue::Ref(_, bk, p) => format!(
                "{{\"k\":\"ref\",\"mut\":{},\"p\":{}}}",
                matches!(bk, BorrowKind::Mut { .. }),
                self.place(body, p)
            ),
            Rvalue::RawPtr(kind, p) => format!(
                "{{\"k\":\"rawptr\",\"kind\":{},\"p\":{}}}",
                esc(&format!("{:?}", kind)),
                self.place(body, p)
            ),
            Rvalue::Discriminant(p) => {
                format!("{{\"k\":\"discr\",\"p\":{}}}", self.place(body, p))
            }
            Rvalue::BinaryOp(op, b) => format!(
                "{{\"k\":\"bin\",\"op\":{},\"a\":{},\"b\":{}}}",
                esc(&format!("{:?}", op)),
                self.operand(body, &b.0),
                self.operand(body, &b.1)
            ),
            Rvalue::UnaryOp(op, o) => format!(
                "{{\"k\":\"un\",\"op\":{},\"a\":{}}}",
                esc(&format!("{:?}", op)),
                self.operand(body, o)
            ),
            Rvalue::Cast(kind, o, ty) => format!(
                "{{\"k\":\"cast\",\"kind\":{},\"o\":{},\"ty\":{}}}",
                esc(&format!("{:?}", kind)),
                self.operand(body, o),
                esc(&ty.to_string())
            ),
            Rvalue::CopyForDeref(p) => format!(
                "{{\"k\":\"use\",\"o\":{{\"copy\":{}}}}}",
                self.place(body, p)
            ),
            Rvalue::Aggregate(kind, fields) => {
                let k = match &**kind {
                    AggregateKind::Tuple => "{\"agg\":\"tuple\"}".to_string(),
                    AggregateKind::Array(_) => "{\"agg\":\"array\"}".to_string(),
                    AggregateKind::Adt(did, v, _, _, _) => {
                        let adt = tcx.adt_def(*did);
                        let vd = adt.variant(*v);
                        let names: Vec<String> =
                            vd.fields.iter().map(|f| esc(&f.name.to_string())).collect();
                        let dv = if adt.is_enum() {
                            adt.discriminant_for_variant(tcx, *v).val
                        } else {
                            0
                        };
                        format!(
                            "{{\"agg\":\"adt\",\"adt\":{},\"variant\":{},\"vi\":{},\"dv\":{},\"fields\":[{}]}}",
                            esc(&tcx.def_path_str(*did)),
                            esc(&vd.name.to_string()),
                            v.as_usize(),
                            dv,
                            names.join(",")
                        )
                    }
                    AggregateKind::Closure(did, _) => {
                        format!(
                            "{{\"agg\":\"closure\",\"def\":{}}}",
                            esc(&tcx.def_path_str(*did))
                        )
                    }
                    other => format!("{{\"agg\":{}}}", esc(&format!("{:?}", other))),
                };
                let fs: Vec<String> = fields.iter().map(|o| self.operand(body, o)).collect();
                format!("{{\"k\":\"agg\",\"kind\":{},\"ops\":[{}]}}", k, fs.join(","))
            }
            other => format!("{{\"k\":\"other\",\"dbg\":{}}}", esc(&format!("{:?}", other))),
        }
    }

    fn body(&self, body: &Body<'tcx>) -> String {
        let tcx = self.tcx;
        let mut s = String::new();
        s.push_str("{\"locals\":[");
        for (i, d) in body.local_decls.iter().enumerate() {
            if i > 0 {
                s.push(',');
            }
            s.push_str(&esc(&d.ty.to_string()));
        }
        s.push_str("],\"names\":{");
        let mut first = true;
        for vdi in &body.var_debug_info {
            if let VarDebugInfoContents::Place(p) = &vdi.value {
                if p.projection.is_empty() {
                    if !first {
                        s.push(',');
                    }
                    first = false;
                    let _ = write!(s, "\"{}\":{}", p.local.as_usize(), esc(&vdi.name.to_string()));
                }
            }
        }
        let _ = write!(s, "}},\"argc\":{},\"blocks\":[", body.arg_count);
        for (bi, bb) in body.basic_blocks.iter().enumerate() {
            if bi > 0 {
                s.push(',');
            }
            let _ = write!(s, "{{\"cleanup\":{},\"st\":[", bb.is_cleanup);
            let mut first = true;
            for st in &bb.statements {
                let ln = self.line(st.source_info.span);
                let js = match &st.kind {
                    StatementKind::Assign(b) => Some(format!(
                        "{{\"lhs\":{},\"rv\":{},\"ln\":{}}}",
                        self.place(body, &b.0),
                        self.rvalue(body, &b.1),
                        ln
                    )),
                    StatementKind::SetDiscriminant { place, variant_index } => Some(format!(
                        "{{\"setdiscr\":{},\"v\":{},\"ln\":{}}}",
                        self.place(body, place),
                        variant_index.as_usize(),
                        ln
                    )),
                    StatementKind::StorageLive(_)
                    | StatementKind::StorageDead(_)
                    | StatementKind::Nop
                    | StatementKind::FakeRead(..)
                    | StatementKind::PlaceMention(..)
                    | StatementKind::AscribeUserType(..)
                    | StatementKind::Coverage(..)
                    | StatementKind::ConstEvalCounter
                    | StatementKind::BackwardIncompatibleDropHint { .. } => None,
                    other => Some(format!("{{\"stother\":{}}}", esc(&format!("{:?}", other)))),
                };
                if let Some(js) = js {
                    if !first {
                        s.push(',');
                    }
                    first = false;
                    s.push_str(&js);
                }
            }
            s.push_str("],\"term\":");
            let t = bb.terminator();
            let span = self.span(t.source_info.span);
            let tj = match &t.kind {
                TerminatorKind::Goto { target } => {
                    format!("{{\"k\":\"goto\",\"t\":{}}}", target.as_usize())
                }
                TerminatorKind::SwitchInt { discr, targets } => {
                    let mut arms = Vec::new();
                    for (v, t) in targets.iter() {
                        arms.push(format!("[{},{}]", v, t.as_usize()));
                    }
                    format!(
                        "{{\"k\":\"switch\",\"d\":{},\"arms\":[{}],\"else\":{}}}",
                        self.operand(body, discr),
                        arms.join(","),
                        targets.otherwise().as_usize()
                    )
                }
                TerminatorKind::Return => "{\"k\":\"return\"}".to_string(),
                TerminatorKind::Unreachable => "{\"k\":\"unreachable\"}".to_string(),
                TerminatorKind::UnwindResume | TerminatorKind::UnwindTerminate(_) => {
                    "{\"k\":\"unwind\"}".to_string()
                }
                TerminatorKind::Drop { place, target, .. } => format!(
                    "{{\"k\":\"drop\",\"p\":{},\"t\":{}}}",
                    self.place(body, place),
                    target.as_usize()
                ),
                TerminatorKind::Assert { cond, expected, msg, target, .. } => {
                    let kind = match &**msg {
                        AssertKind::BoundsCheck { .. } => "BoundsCheck".to_string(),
                        AssertKind::Overflow(op, _, _) => format!("Overflow({:?})", op),
                        AssertKind::OverflowNeg(_) => "OverflowNeg".to_string(),
                        AssertKind::DivisionByZero(_) => "DivisionByZero".to_string(),
                        AssertKind::RemainderByZero(_) => "RemainderByZero".to_string(),
                        other => format!("{:?}", other)
                            .split('(')
                            .next()
                            .unwrap_or("")
                            .to_string(),
                    };
                    let ops: Vec<String> = match &**msg {
                        AssertKind::Overflow(_, a, b) => {
                            vec![self.operand(body, a), self.operand(body, b)]
                        }
                        AssertKind::BoundsCheck { len, index } => {
                            vec![self.operand(body, len), self.operand(body, index)]
                        }
                        _ => vec![],
                    };
                    format!(
                        "{{\"k\":\"assert\",\"c\":{},\"exp\":{},\"kind\":{},\"ops\":[{}],\"t\":{}}}",
                        self.operand(body, cond),
                        expected,
                        esc(&kind),
                        ops.join(","),
                        target.as_usize()
                    )
                }
                TerminatorKind::Call { func, args, destination, target, .. } => {
                    let env = TypingEnv::post_analysis(tcx, body.source.def_id());
                    let mut resolved = String::from("null");
                    let mut resolved_path = String::from("null");
                    if let Some((did, gargs)) = func.const_fn_def() {
                        if let Ok(Some(inst)) = ty::Instance::try_resolve(tcx, env, did, gargs) {
                            resolved = esc(&tcx.def_path_str_with_args(inst.def_id(), inst.args));
                            resolved_path = esc(&tcx.def_path_str(inst.def_id()));
                        }
                    }
                    let a: Vec<String> =
                        args.iter().map(|a| self.operand(body, &a.node)).collect();
                    format!(
                        "{{\"k\":\"call\",\"f\":{},\"res\":{},\"resp\":{},\"args\":[{}],\"dest\":{},\"t\":{},\"exp\":{}}}",
                        self.operand(body, func),
                        resolved,
                        resolved_path,
                        a.join(","),
                        self.place(body, destination),
                        target.map(|t| t.as_usize() as i64).unwrap_or(-1),
                        t.source_info.span.from_expansion()
                    )
                }
                other => format!("{{\"k\":\"other\",\"dbg\":{}}}", esc(&format!("{:?}", other))),
            };
            let _ = write!(
                s,
                "{},\"span\":{},\"texp\":{}}}",
                tj,
                esc(&span),
                t.source_info.span.from_expansion()
            );
        }
        s.push_str("]}");
        s
    }

    fn expn_macro(&self, sp: Span) -> String {
        if !sp.from_expansion() {
            return "null".to_string();
        }
        let data = sp.ctxt().outer_expn_data();
        match data.macro_def_id {
            Some(did) => esc(&self.tcx.def_path_str(did)),
            None => esc(&format!("{:?}", data.kind)),
        }
    }

    /// HIR view of `static X: [( .. , .. ); N] = [ (a, b), ... ]`: each tuple component as a string
    /// literal value or a resolved path.
    fn static_hir_pairs(&self, did: DefId) -> Option<String> {
        let tcx = self.tcx;
        let ldid = did.as_local()?;
        let body = tcx.hir_maybe_body_owned_by(ldid)?;
        let tr = tcx.typeck(ldid);
        let mut expr = body.value;
        // peel blocks / casts / borrows
        loop {
            match expr.kind {
                rustc_hir::ExprKind::AddrOf(_, _, e) => expr = e,
                rustc_hir::ExprKind::Cast(e, _) => expr = e,
                rustc_hir::ExprKind::DropTemps(e) => expr = e,
                _ => break,
            }
        }
        let elems = match expr.kind {
            rustc_hir::ExprKind::Array(elems) => elems,
            _ => return None,
        };
        let mut out = Vec::new();
        for e in elems {
            let comps = match e.kind {
                rustc_hir::ExprKind::Tup(comps) => comps,
                _ => return None,
            };
            let mut cs = Vec::new();
            for c in comps {
                let mut c = c;
                loop {
                    match c.kind {
                        rustc_hir::ExprKind::AddrOf(_, _, e) => c = e,
                        rustc_hir::ExprKind::Cast(e, _) => c = e,
                        rustc_hir::ExprKind::DropTemps(e) => c = e,
                        _ => break,
                    }
                }
                let js = match c.kind {
                    rustc_hir::ExprKind::Lit(lit) => match lit.node {
                        rustc_ast::LitKind::Str(sym, _) => {
                            format!("{{\"str\":{}}}", esc(sym.as_str()))
                        }
                        rustc_ast::LitKind::Char(ch) => format!("{{\"int\":{}}}", ch as u32),
                        rustc_ast::LitKind::Int(v, _) => format!("{{\"int\":{}}}", v.get()),
                        _ => "{\"unknown\":\"lit\"}".to_string(),
                    },
                    rustc_hir::ExprKind::Path(ref qpath) => match tr.qpath_res(qpath, c.hir_id) {
                        Res::Def(kind, d) => format!(
                            "{{\"path\":{},\"kind\":{}}}",
                            esc(&tcx.def_path_str(d)),
                            esc(&format!("{:?}", kind))
                        ),
                        other => format!("{{\"unknown\":{}}}", esc(&format!("{:?}", other))),
                    },
                    _ => "{\"unknown\":\"expr\"}".to_string(),
                };
                cs.push(js);
            }
            out.push(format!("[{}]", cs.join(",")));
        }
        Some(format!("[{}]", out.join(",")))
    }

    fn static_item(&self, did: DefId) -> String {
        let tcx = self.tcx;
        let ty = tcx.type_of(did).instantiate_identity().skip_norm_wip();
        let env = TypingEnv::fully_monomorphized();
        let freeze = ty.is_freeze(tcx, env);
        let mutable = tcx.is_mutable_static(did);
        let tys = ty.to_string();
        let mut s = format!(
            "{{\"path\":{},\"ty\":{},\"mutable\":{},\"freeze\":{},\"span\":{},\"from_expansion\":{},\"expn_macro\":{}",
            esc(&tcx.def_path_str(did)),
            esc(&tys),
            mutable,
            freeze,
            esc(&self.span(tcx.def_span(did))),
            tcx.def_span(did).from_expansion(),
            self.expn_macro(tcx.def_span(did)),
        );
        // Contents of `[(char, char); N]` / `[(u32, u32); N]` tables, evaluated by the compiler
        if tys.starts_with("[(char, char); ") || tys.starts_with("[(u32, u32); ") {
            if let Ok(alloc) = tcx.eval_static_initializer(did) {
                let alloc = alloc.inner();
                let len = alloc.len();
                let bytes = alloc.inspect_with_uninit_and_ptr_outside_interpreter(0..len);
                let mut vals = Vec::with_capacity(len / 4);
                for ch in bytes.chunks_exact(4) {
                    vals.push(u32::from_le_bytes([ch[0], ch[1], ch[2], ch[3]]).to_string());
                }
                let _ = write!(s, ",\"u32s\":[{}]", vals.join(","));
            }
        }
        if let Some(pairs) = self.static_hir_pairs(did) {
            let _ = write!(s, ",\"hir_pairs\":{}", pairs);
        }
        s.push('}');
        s
    }
}

struct Cb;
impl rustc_driver::Callbacks for Cb {
    fn after_analysis<'tcx>(
        &mut self,
        _c: &rustc_interface::interface::Compiler,
        tcx: TyCtxt<'tcx>,
    ) -> Compilation {
        let stop = std::env::var("MIRDUMP_STOP").is_ok();
        let ret = if stop { Compilation::Stop } else { Compilation::Continue };
        let out_dir = match std::env::var("MIRDUMP_OUT") {
            Ok(d) => d,
            Err(_) => return ret,
        };
        if tcx.dcx().has_errors().is_some() {
            return ret;
        }
        let krate = tcx.crate_name(LOCAL_CRATE).to_string();
        let cx = Cx { tcx };
        let mut out = String::new();
        let crate_types: Vec<String> =
            tcx.crate_types().iter().map(|t| format!("{:?}", t)).collect();
        let _ = write!(
            out,
            "{{\"crate\":{},\"crate_types\":{},\"is_test\":{},\"bodies\":[",
            esc(&krate),
            esc(&crate_types.join(",")),
            tcx.sess.opts.test
        );
        let mut first = true;
        for def in tcx.mir_keys(()) {
            let did = def.to_def_id();
            let kind = tcx.def_kind(did);
            if !matches!(kind, DefKind::Fn | DefKind::AssocFn | DefKind::Closure) {
                continue;
            }
            let body = tcx.optimized_mir(did);
            if !first {
                out.push(',');
            }
            first = false;
            let span = tcx.def_span(did);
            let (sig_in, sig_out) = if matches!(kind, DefKind::Fn | DefKind::AssocFn) {
                let sig = tcx.fn_sig(did).instantiate_identity().skip_norm_wip().skip_binder();
                (
                    sig.inputs().iter().map(|t| esc(&t.to_string())).collect::<Vec<_>>(),
                    esc(&sig.output().to_string()),
                )
            } else {
                (vec![], "null".to_string())
            };
            let vis = if matches!(kind, DefKind::Fn | DefKind::AssocFn) {
                esc(&format!("{:?}", tcx.visibility(did)))
            } else {
                "null".to_string()
            };
            let _ = write!(
                out,
                "{{\"path\":{},\"kind\":{},\"from_expansion\":{},\"expn_macro\":{},\"span\":{},\"sig_in\":[{}],\"sig_out\":{},\"vis\":{},\"mir\":{},\"promoted\":[",
                esc(&tcx.def_path_str(did)),
                esc(&format!("{:?}", kind)),
                span.from_expansion(),
                cx.expn_macro(span),
                esc(&cx.span(span)),
                sig_in.join(","),
                sig_out,
                vis,
                cx.body(body)
            );
            let promoted = tcx.promoted_mir(did);
            for (i, pb) in promoted.iter().enumerate() {
                if i > 0 {
                    out.push(',');
                }
                out.push_str(&cx.body(pb));
            }
            out.push_str("]}");
        }
        out.push_str("],\"statics\":[");
        let mut first = true;
        let items = tcx.hir_crate_items(());
        for ldid in items.definitions() {
            let did = ldid.to_def_id();
            if let DefKind::Static { nested: false, .. } = tcx.def_kind(did) {
                if !first {
                    out.push(',');
                }
                first = false;
                out.push_str(&cx.static_item(did));
            }
        }
        out.push_str("],\"adts\":[");
        let mut first = true;
        for ldid in items.definitions() {
            let did = ldid.to_def_id();
            if matches!(tcx.def_kind(did), DefKind::Struct | DefKind::Enum | DefKind::Union) {
                let adt = tcx.adt_def(did);
                if !first {
                    out.push(',');
                }
                first = false;
                let _ = write!(
                    out,
                    "{{\"path\":{},\"span\":{},\"from_expansion\":{},\"expn_macro\":{},\"variants\":[",
                    esc(&tcx.def_path_str(did)),
                    esc(&cx.span(tcx.def_span(did))),
                    tcx.def_span(did).from_expansion(),
                    cx.expn_macro(tcx.def_span(did)),
                );
                for (vi, v) in adt.variants().iter().enumerate() {
                    if vi > 0 {
                        out.push(',');
                    }
                    let _ = write!(out, "{{\"name\":{},\"fields\":[", esc(&v.name.to_string()));
                    for (fi, f) in v.fields.iter().enumerate() {
                        if fi > 0 {
                            out.push(',');
                        }
                        let fty = tcx.type_of(f.did).instantiate_identity().skip_norm_wip();
                        let _ = write!(
                            out,
                            "{{\"name\":{},\"ty\":{},\"vis\":{}}}",
                            esc(&f.name.to_string()),
                            esc(&fty.to_string()),
                            esc(&format!("{:?}", f.vis))
                        );
                    }
                    out.push_str("]}");
                }
                out.push_str("]}");
            }
        }
        out.push_str("],\"impls\":[");
        let mut first = true;
        for ldid in items.definitions() {
            let did = ldid.to_def_id();
            if let DefKind::Impl { of_trait } = tcx.def_kind(did) {
                if !first {
                    out.push(',');
                }
                first = false;
                let self_ty = tcx.type_of(did).instantiate_identity().skip_norm_wip();
                let tr = if of_trait {
                    let tr = tcx.impl_trait_ref(did).instantiate_identity().skip_norm_wip();
                    esc(&tcx.def_path_str(tr.def_id))
                } else {
                    "null".to_string()
                };
                let _ = write!(
                    out,
                    "{{\"self_ty\":{},\"trait\":{},\"derived\":{},\"from_expansion\":{},\"expn_macro\":{},\"span\":{}}}",
                    esc(&self_ty.to_string()),
                    tr,
                    tcx.is_automatically_derived(did),
                    tcx.def_span(did).from_expansion(),
                    cx.expn_macro(tcx.def_span(did)),
                    esc(&cx.span(tcx.def_span(did)))
                );
            }
        }
        out.push_str("],\"items\":[");
        // every module-level item (name, kind, module, expansion): used by the naming rule
        let mut first = true;
        for ldid in items.definitions() {
            let did = ldid.to_def_id();
            let kind = tcx.def_kind(did);
            if matches!(
                kind,
                DefKind::Fn
                    | DefKind::Static { .. }
                    | DefKind::Const { .. }
                    | DefKind::Struct
                    | DefKind::Enum
                    | DefKind::Union
                    | DefKind::TyAlias
                    | DefKind::Trait
                    | DefKind::Mod
            ) {
                if did.is_crate_root() {
                    continue;
                }
                let parent = tcx.parent(did);
                if !matches!(
                    tcx.def_kind(parent),
                    DefKind::Mod | DefKind::Fn | DefKind::AssocFn | DefKind::Closure
                ) {
                    continue;
                }
                if !first {
                    out.push(',');
                }
                first = false;
                let _ = write!(
                    out,
                    "{{\"name\":{},\"kind\":{},\"parent\":{},\"from_expansion\":{},\"expn_macro\":{},\"span\":{}}}",
                    esc(&tcx.item_name(did).to_string()),
                    esc(&format!("{:?}", kind).split(' ').next().unwrap_or("").to_string()),
                    esc(&tcx.def_path_str(parent)),
                    tcx.def_span(did).from_expansion(),
                    cx.expn_macro(tcx.def_span(did)),
                    esc(&cx.span(tcx.def_span(did)))
                );
            }
        }
        out.push_str("]}");
        let stem = match std::env::var("MIRDUMP_NAME") {
            Ok(n) => n,
            Err(_) => {
                let mut h = String::new();
                for a in std::env::args() {
                    if let Some(m) = a.strip_prefix("metadata=") {
                        h = m.to_string();
                    }
                }
                if h.is_empty() {
                    h = std::process::id().to_string();
                }
                format!("{}-{}{}", krate, h, if tcx.sess.opts.test { "-test" } else { "" })
            }
        };
        let fname = format!("{}/{}.json", out_dir, stem);
        let tmp = format!("{}.tmp{}", fname, std::process::id());
        std::fs::write(&tmp, out).expect("write facts");
        std::fs::rename(&tmp, &fname).expect("rename facts");
        ret
    }
}

fn main() {
    let mut args: Vec<String> = std::env::args().collect();
    if args.len() > 1 && (args[1].ends_with("rustc") || args[1].contains("/rustc")) {
        args.remove(1);
    }
    rustc_driver::run_compiler(&args, &mut Cb);
}
