//! Reference tables for R-ORACLE: for each of the 20 character predicates that lexgen's built-in
//! classes are documented to equal, the maximal ranges of scalar values satisfying it, as JSON.
//! Contains no lexgen code; uses only `core`'s and `unicode-xid`'s predicates of the installed
//! toolchain.
use unicode_xid::UnicodeXID;

fn ranges(f: &dyn Fn(char) -> bool) -> Vec<(u32, u32)> {
    let mut out: Vec<(u32, u32)> = Vec::new();
    let mut open: Option<(u32, u32)> = None;
    let mut cp: u32 = 0;
    while cp <= 0x10FFFF {
        if let Some(c) = char::from_u32(cp) {
            if f(c) {
                open = Some(match open {
                    None => (cp, cp),
                    Some((s, _)) => (s, cp),
                });
            } else if let Some(r) = open.take() {
                out.push(r);
            }
        }
        cp += 1;
    }
    if let Some(r) = open {
        out.push(r);
    }
    out
}

fn main() {
    let preds: Vec<(&str, Box<dyn Fn(char) -> bool>)> = vec![
        ("alphabetic", Box::new(|c: char| c.is_alphabetic())),
        ("alphanumeric", Box::new(|c: char| c.is_alphanumeric())),
        ("ascii", Box::new(|c: char| c.is_ascii())),
        ("ascii_alphabetic", Box::new(|c: char| c.is_ascii_alphabetic())),
        ("ascii_alphanumeric", Box::new(|c: char| c.is_ascii_alphanumeric())),
        ("ascii_control", Box::new(|c: char| c.is_ascii_control())),
        ("ascii_digit", Box::new(|c: char| c.is_ascii_digit())),
        ("ascii_graphic", Box::new(|c: char| c.is_ascii_graphic())),
        ("ascii_hexdigit", Box::new(|c: char| c.is_ascii_hexdigit())),
        ("ascii_lowercase", Box::new(|c: char| c.is_ascii_lowercase())),
        ("ascii_punctuation", Box::new(|c: char| c.is_ascii_punctuation())),
        ("ascii_uppercase", Box::new(|c: char| c.is_ascii_uppercase())),
        ("ascii_whitespace", Box::new(|c: char| c.is_ascii_whitespace())),
        ("control", Box::new(|c: char| c.is_control())),
        ("lowercase", Box::new(|c: char| c.is_lowercase())),
        ("numeric", Box::new(|c: char| c.is_numeric())),
        ("uppercase", Box::new(|c: char| c.is_uppercase())),
        ("whitespace", Box::new(|c: char| c.is_whitespace())),
        ("XID_Start", Box::new(|c: char| UnicodeXID::is_xid_start(c))),
        ("XID_Continue", Box::new(|c: char| UnicodeXID::is_xid_continue(c))),
    ];
    let mut out = String::from("{");
    for (i, (name, f)) in preds.iter().enumerate() {
        if i > 0 {
            out.push(',');
        }
        out.push_str(&format!("\"{}\":[", name));
        let rs = ranges(f.as_ref());
        for (j, (a, b)) in rs.iter().enumerate() {
            if j > 0 {
                out.push(',');
            }
            out.push_str(&format!("[{},{}]", a, b));
        }
        out.push(']');
    }
    out.push('}');
    println!("{}", out);
}
